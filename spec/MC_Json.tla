------------------------------ MODULE MC_Json ------------------------------
(* Design check: for a family of assignments of every version (every metric x every value on a sparse and on a dense
   background, both minor versions of v3) the reference documents of JsonDoc.tla satisfy the schema predicates of
   JsonSchema.tla (C10) and the rules of JsonRules.tla (C11) in all four (sort, minimal) variants.  This shows the two
   properties are jointly satisfiable as formalised, and gives the rules a positive witness in every clause.       *)
EXTENDS JsonDoc
VerMinor == << <<"2", -1>>, <<"3", 0>>, <<"3", 1>>, <<"4", -1>> >>
\* background assignments: mandatory metrics at their first value; "dense" adds every optional metric at its first value
Sparse(ver) == [mm \in MandSetOf(ver) |-> ValsOf(ver)[mm][1]]
Dense(ver) == [mm \in MetricsOf(ver) |-> ValsOf(ver)[mm][1]]
Cases(ver) == UNION { {[x \in (DOMAIN bg) \cup {mm} |-> IF x = mm THEN v ELSE bg[x]] : v \in SeqToSet(ValsOf(ver)[mm])} : mm \in MetricsOf(ver), bg \in {Sparse(ver), Dense(ver)} }
CaseList == UNION { {<<VerMinor[k][1], VerMinor[k][2], g>> : g \in Cases(VerMinor[k][1])} : k \in 1..4 }
VARIABLES cs, ph
Init == cs \in CaseList /\ ph = 0
Next == ph = 0 /\ ph' = 1 /\ cs' = cs
Spec == Init /\ [][Next]_<<cs, ph>>
Check(ver, minor, g) ==
   LET sc == ScoresOf(ver, minor, g)
       e == [ver |-> ver, s |-> Clean(ver, minor, g, TRUE), out |-> [minor |-> minor, scores |-> sc, sev |-> SeveritiesOf(ver, sc)]]
       uf == SpecDoc(ver, minor, g, FALSE, FALSE)  um == SpecDoc(ver, minor, g, FALSE, TRUE)
       sf == SpecDoc(ver, minor, g, TRUE, FALSE)   sm == SpecDoc(ver, minor, g, TRUE, TRUE)
       sv == SchemaVersion(ver, minor)
       docs == <<uf, um, sf, sm>>
   IN IF \E k \in 1..4 : SchemaFails(sv, docs[k]) # {} THEN "schema " \o ToString(UNION {SchemaFails(sv, docs[k]) : k \in 1..4})
      ELSE IF \E k \in 1..4 : Faithful(e, docs[k], g) # "ok" THEN "faithful " \o Faithful(e, docs[CHOOSE k \in 1..4 : Faithful(e, docs[k], g) # "ok"], g)
      ELSE IF SortedOk(uf, sf) # "ok" THEN SortedOk(uf, sf)
      ELSE IF SortedOk(um, sm) # "ok" THEN SortedOk(um, sm)
      ELSE IF MinimalOk(ver, g, uf, um) # "ok" THEN MinimalOk(ver, g, uf, um)
      ELSE "ok"
Inv == ph = 0 \/ LET v == Check(cs[1], cs[2], cs[3]) IN v = "ok" \/ PrintT(<<"FAIL", cs, v>>) = FALSE
\* non-vacuity: some case leaves out a group in its minimal document, some case keeps all
SomeGroupOmitted == \E c \in CaseList : Len(SpecDoc(c[1], c[2], c[3], FALSE, TRUE)) < Len(SpecDoc(c[1], c[2], c[3], FALSE, FALSE))
ASSUME SomeGroupOmitted
=============================================================================
