SPECIFICATION Spec
INVARIANT Inv
CONSTANT Prop = "XS"
CHECK_DEADLOCK FALSE
