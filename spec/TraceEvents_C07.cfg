SPECIFICATION Spec
INVARIANT Inv
CONSTANT Prop = "C07"
CHECK_DEADLOCK FALSE
