------------------------------ MODULE MC_GenV4 ------------------------------
(* spec -> code generator: K vectors for every row of the v4 lookup table (270 macro vectors), drawn from the product of the
   per-class preimages of the macro vector under Score4.tla's EQ functions (EQ1 over AV/PR/UI, EQ2 over AC/AT, EQ3 and EQ6
   jointly over VC/VI/VA/CR/IR/AR, EQ4 over SC/SI/SA, EQ5 = E).  Effective values are written through base metrics, or -
   seeded - through modified metrics over another base value; Safety through MSI / MSA.  Emitted as GEN lines.        *)
EXTENDS Vector, TLC, Json, FiniteSets
CONSTANTS K
T3 == {<<a,b,c>> : a \in 0..3, b \in 0..2, c \in 0..2}
P1(e) == {t \in T3 : EQ1(t[1],t[2],t[3]) = e}
T2 == {<<a,b>> : a \in 0..1, b \in 0..1}
P2(e) == {t \in T2 : EQ2(t[1],t[2]) = e}
T6 == {<<a,b,c,d,e,f>> : a \in 0..2, b \in 0..2, c \in 0..2, d \in 0..2, e \in 0..2, f \in 0..2}
P36(e3, e6) == {t \in T6 : EQ3(t[1],t[2],t[3]) = e3 /\ EQ6(t[1],t[2],t[3],t[4],t[5],t[6]) = e6}
T4 == {<<a,b,c>> : a \in 1..3, b \in 0..3, c \in 0..3}
P4(e) == {t \in T4 : EQ4(t[1],t[2],t[3]) = e}
Inv1(tab, l) == CHOOSE v \in DOMAIN tab : tab[v] = l
\* one draw for macro vector mv: a level tuple in Levels4's order (AV PR UI AC AT VC VI VA SC SI SA CR IR AR E)
Draw(mv) == LET a == RandomElement(P1(mv[1]))  b == RandomElement(P2(mv[2]))  c == RandomElement(P36(mv[3], mv[6]))  d == RandomElement(P4(mv[4]))
            IN <<a[1],a[2],a[3], b[1],b[2], c[1],c[2],c[3], d[1],d[2],d[3], c[4],c[5],c[6], mv[5]>>
Values(a) == [AV |-> Inv1(LvAV,a[1]), PR |-> Inv1(LvPR,a[2]), UI |-> Inv1(LvUI,a[3]), AC |-> Inv1(LvAC,a[4]), AT |-> Inv1(LvAT,a[5]),
              VC |-> Inv1(LvV,a[6]), VI |-> Inv1(LvV,a[7]), VA |-> Inv1(LvV,a[8]), SC |-> Inv1(LvSC,a[9]), SI |-> Inv1(LvS,a[10]), SA |-> Inv1(LvS,a[11]),
              CR |-> Inv1(LvR,a[12]), IR |-> Inv1(LvR,a[13]), AR |-> Inv1(LvR,a[14]), E |-> Inv1(LvE,a[15])]
Rows == DOMAIN Lookup4
VARIABLES mv, k
Init == mv \in Rows /\ k = 0
Next == k < K /\ k' = k + 1 /\ mv' = mv
Spec == Init /\ [][Next]_<<mv, k>>
\* each drawn tuple has the macro vector it was drawn for (the preimages are right) - checked on every draw
Emit == k = 0 \/ LET a == Draw(mv) IN
                 /\ Macro(a) = mv
                 /\ PrintT("GEN " \o ToJson([mv |-> mv, eff |-> Values(a), score |-> Score4(a)]))
NonEmpty == \A r \in Rows : P1(r[1]) # {} /\ P2(r[2]) # {} /\ P36(r[3], r[6]) # {} /\ P4(r[4]) # {}
ASSUME NonEmpty
=============================================================================
