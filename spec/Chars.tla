------------------------------ MODULE Chars ------------------------------
(* Text as native TLA+ strings.  TLC implements Len, SubSeq, Tail and \o on strings (not Head,
   indexing, Append or SelectSeq), so the character at k is SubSeq(s,k,k).
   Drivers log every string as printable ASCII with the injective escape {<decimal code point>}
   for any other character and for '{' / '}' themselves; an escape consists only of characters
   that are neither in [A-Za-z:/] nor part of any metric name or value, so for the grammars below it
   behaves as "some foreign characters".                                                    *)
EXTENDS Integers, Sequences, TLC

Ch(s,k) == SubSeq(s,k,k)
StartsWith(s,p) == Len(s) >= Len(p) /\ SubSeq(s,1,Len(p)) = p
EndsWith(s,p) == Len(s) >= Len(p) /\ SubSeq(s,Len(s)-Len(p)+1,Len(s)) = p
DropPrefix(s,n) == SubSeq(s,n+1,Len(s))

\* str.split(sep) for a one-character separator: a non-empty sequence of strings
RECURSIVE SplitR(_,_,_,_)
SplitR(s,sep,k,from) == IF k > Len(s) THEN <<SubSeq(s,from,Len(s))>>
                        ELSE IF Ch(s,k) = sep THEN <<SubSeq(s,from,k-1)>> \o SplitR(s,sep,k+1,k+1)
                        ELSE SplitR(s,sep,k+1,from)
Split(s,sep) == SplitR(s,sep,1,1)

\* index of the first occurrence of the character c at or after position k; 0 if none
RECURSIVE IndexFrom(_,_,_)
IndexFrom(s,c,k) == IF k > Len(s) THEN 0 ELSE IF Ch(s,k) = c THEN k ELSE IndexFrom(s,c,k+1)

RECURSIVE Join(_,_)
Join(xs,sep) == IF xs = <<>> THEN "" ELSE IF Len(xs) = 1 THEN xs[1] ELSE xs[1] \o sep \o Join(Tail(xs),sep)

IsSubstring(t,s) == \E k \in 1..(Len(s)-Len(t)+1) : SubSeq(s,k,k+Len(t)-1) = t

UpperLetters == {"A","B","C","D","E","F","G","H","I","J","K","L","M","N","O","P","Q","R","S","T","U","V","W","X","Y","Z"}
LowerLetters == {"a","b","c","d","e","f","g","h","i","j","k","l","m","n","o","p","q","r","s","t","u","v","w","x","y","z"}
Letters == UpperLetters \cup LowerLetters
Digits == {"0","1","2","3","4","5","6","7","8","9"}
UpMap == [c \in LowerLetters |->
   CASE c="a"->"A" [] c="b"->"B" [] c="c"->"C" [] c="d"->"D" [] c="e"->"E" [] c="f"->"F" [] c="g"->"G"
     [] c="h"->"H" [] c="i"->"I" [] c="j"->"J" [] c="k"->"K" [] c="l"->"L" [] c="m"->"M" [] c="n"->"N"
     [] c="o"->"O" [] c="p"->"P" [] c="q"->"Q" [] c="r"->"R" [] c="s"->"S" [] c="t"->"T" [] c="u"->"U"
     [] c="v"->"V" [] c="w"->"W" [] c="x"->"X" [] c="y"->"Y" [] c="z"->"Z"]
UpCh(c) == IF c \in LowerLetters THEN UpMap[c] ELSE c
RECURSIVE Upper(_)
Upper(s) == IF s = "" THEN "" ELSE UpCh(Ch(s,1)) \o Upper(Tail(s))
LowCh(c) == IF c \in UpperLetters THEN (CHOOSE l \in LowerLetters : UpMap[l] = c) ELSE c
RECURSIVE Lower(_)
Lower(s) == IF s = "" THEN "" ELSE LowCh(Ch(s,1)) \o Lower(Tail(s))
\* ASCII blank stripping (drivers restrict padding to the space character)
RECURSIVE LStrip(_)
LStrip(s) == IF s # "" /\ Ch(s,1) = " " THEN LStrip(Tail(s)) ELSE s
RECURSIVE RStrip(_)
RStrip(s) == IF s # "" /\ Ch(s,Len(s)) = " " THEN RStrip(SubSeq(s,1,Len(s)-1)) ELSE s
Strip(s) == RStrip(LStrip(s))

DigitVal(c) == CASE c="0"->0 [] c="1"->1 [] c="2"->2 [] c="3"->3 [] c="4"->4 [] c="5"->5 [] c="6"->6
                 [] c="7"->7 [] c="8"->8 [] c="9"->9
DigitCh(d) == CASE d=0->"0" [] d=1->"1" [] d=2->"2" [] d=3->"3" [] d=4->"4" [] d=5->"5" [] d=6->"6"
                [] d=7->"7" [] d=8->"8" [] d=9->"9"
AllDigits(s) == s # "" /\ \A k \in 1..Len(s) : Ch(s,k) \in Digits
\* decimal text of a natural number
RECURSIVE NatStr(_)
NatStr(n) == IF n < 10 THEN DigitCh(n) ELSE NatStr(n \div 10) \o DigitCh(n % 10)
\* one-decimal text of a score given in tenths: 73 -> "7.3", 100 -> "10.0", 0 -> "0.0"
ScoreText(t) == NatStr(t \div 10) \o "." \o DigitCh(t % 10)
\* sequence membership helpers
SeqToSet(q) == {q[k] : k \in 1..Len(q)}
InSeq(x,q) == \E k \in 1..Len(q) : q[k] = x
IndexIn(x,q) == CHOOSE k \in 1..Len(q) : q[k] = x
=============================================================================
