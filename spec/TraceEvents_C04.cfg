SPECIFICATION Spec
INVARIANT Inv
CONSTANT Prop = "C04"
CHECK_DEADLOCK FALSE
