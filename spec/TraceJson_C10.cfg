SPECIFICATION Spec
INVARIANT Inv
CONSTANT Prop = "C10"
CHECK_DEADLOCK FALSE
