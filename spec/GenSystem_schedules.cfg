SPECIFICATION GSpec
INVARIANT Emit
INVARIANT ObjectsAreFunctionsOfInput
INVARIANT GlobalsUntouched
INVARIANT ResultsDependOnInputOnly
INVARIANT AccessorResultsAreFunctionsOfTheObject
CONSTANTS
  Threads = {t1, t2}
  Inputs = {}
  MaxObjs = 2
  MaxCalls = 0
  Mode = "schedules"
  BugSharedScratch = FALSE
  BugCache = FALSE
  BugAccessorMutates = FALSE
  BugJsonAlias = FALSE
  BugEntryPointWritesTables = FALSE
  BugCopyDiffers = FALSE
  BugMemoPublishedEarly = FALSE
  BugCacheIgnoresContext = FALSE
CHECK_DEADLOCK FALSE
