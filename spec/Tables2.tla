------------------------------ MODULE Tables2 ------------------------------
(* CVSS v2 tables, transcribed from "A Complete Guide to the Common Vulnerability
   Scoring System Version 2.0" (FIRST) and the FIRST cvss-v2.0.json schema.
   Nothing in this module is read from the repository under verification.     *)
EXTENDS Integers, Sequences

Order2 == <<"AV","AC","Au","C","I","A","E","RL","RC","CDP","TD","CR","IR","AR">>
Mand2  == <<"AV","AC","Au","C","I","A">>
Temporal2 == <<"E","RL","RC">>
Environmental2 == <<"CDP","TD","CR","IR","AR">>
ND2 == "ND"

\* legal values, in the order used to enumerate score tables (increasing severity, ND last)
Vals2 == [ AV  |-> <<"L","A","N">>,
           AC  |-> <<"H","M","L">>,
           Au  |-> <<"M","S","N">>,
           C   |-> <<"N","P","C">>,
           I   |-> <<"N","P","C">>,
           A   |-> <<"N","P","C">>,
           E   |-> <<"U","POC","F","H","ND">>,
           RL  |-> <<"OF","TF","W","U","ND">>,
           RC  |-> <<"UC","UR","C","ND">>,
           CDP |-> <<"N","L","LM","MH","H","ND">>,
           TD  |-> <<"N","L","M","H","ND">>,
           CR  |-> <<"L","M","H","ND">>,
           IR  |-> <<"L","M","H","ND">>,
           AR  |-> <<"L","M","H","ND">> ]

\* weights (guide, section 3.2); scaled integers
WAV2  == [L |-> 395, A |-> 646, N |-> 1000]                         \* x1000
WAC2  == [H |-> 35, M |-> 61, L |-> 71]                             \* x100
WAU2  == [M |-> 450, S |-> 560, N |-> 704]                          \* x1000
WCIA2 == [N |-> 0, P |-> 275, C |-> 660]                            \* x1000
WE2   == [U |-> 85, POC |-> 90, F |-> 95, H |-> 100, ND |-> 100]    \* x100
WRL2  == [OF |-> 87, TF |-> 90, W |-> 95, U |-> 100, ND |-> 100]    \* x100
WRC2  == [UC |-> 90, UR |-> 95, C |-> 100, ND |-> 100]              \* x100
WCDP2 == [N |-> 0, L |-> 1, LM |-> 3, MH |-> 4, H |-> 5, ND |-> 0]  \* x10
WTD2  == [N |-> 0, L |-> 25, M |-> 75, H |-> 100, ND |-> 100]       \* x100
WREQ2 == [L |-> 50, M |-> 100, H |-> 151, ND |-> 100]               \* x100

\* "Not Defined" equivalents named by the guide (C06 (b))
NDEquiv2 == [E |-> "H", RL |-> "U", RC |-> "C", CDP |-> "N", TD |-> "H",
             CR |-> "M", IR |-> "M", AR |-> "M"]

\* severity rank of each value for the monotonicity claim (C14: base and temporal scores);
\* a larger rank is "more severe".  ND has no rank.
Rank2 == [ AV |-> [L |-> 1, A |-> 2, N |-> 3],
           AC |-> [H |-> 1, M |-> 2, L |-> 3],
           Au |-> [M |-> 1, S |-> 2, N |-> 3],
           C  |-> [N |-> 1, P |-> 2, C |-> 3],
           I  |-> [N |-> 1, P |-> 2, C |-> 3],
           A  |-> [N |-> 1, P |-> 2, C |-> 3],
           E  |-> [U |-> 1, POC |-> 2, F |-> 3, H |-> 4],
           RL |-> [OF |-> 1, TF |-> 2, W |-> 3, U |-> 4],
           RC |-> [UC |-> 1, UR |-> 2, C |-> 3] ]

\* JSON key per metric (FIRST cvss-v2.0.json)
JsonKey2 == [ AV |-> "accessVector", AC |-> "accessComplexity", Au |-> "authentication",
              C |-> "confidentialityImpact", I |-> "integrityImpact", A |-> "availabilityImpact",
              E |-> "exploitability", RL |-> "remediationLevel", RC |-> "reportConfidence",
              CDP |-> "collateralDamagePotential", TD |-> "targetDistribution",
              CR |-> "confidentialityRequirement", IR |-> "integrityRequirement",
              AR |-> "availabilityRequirement" ]

\* JSON enum name of each value (FIRST cvss-v2.0.json)
CiaName2 == [N |-> "NONE", P |-> "PARTIAL", C |-> "COMPLETE"]
ReqName2 == [L |-> "LOW", M |-> "MEDIUM", H |-> "HIGH", ND |-> "NOT_DEFINED"]
JsonName2 == [ AV  |-> [L |-> "LOCAL", A |-> "ADJACENT_NETWORK", N |-> "NETWORK"],
               AC  |-> [H |-> "HIGH", M |-> "MEDIUM", L |-> "LOW"],
               Au  |-> [M |-> "MULTIPLE", S |-> "SINGLE", N |-> "NONE"],
               C   |-> CiaName2, I |-> CiaName2, A |-> CiaName2,
               E   |-> [U |-> "UNPROVEN", POC |-> "PROOF_OF_CONCEPT", F |-> "FUNCTIONAL",
                        H |-> "HIGH", ND |-> "NOT_DEFINED"],
               RL  |-> [OF |-> "OFFICIAL_FIX", TF |-> "TEMPORARY_FIX", W |-> "WORKAROUND",
                        U |-> "UNAVAILABLE", ND |-> "NOT_DEFINED"],
               RC  |-> [UC |-> "UNCONFIRMED", UR |-> "UNCORROBORATED", C |-> "CONFIRMED",
                        ND |-> "NOT_DEFINED"],
               CDP |-> [N |-> "NONE", L |-> "LOW", LM |-> "LOW_MEDIUM", MH |-> "MEDIUM_HIGH",
                        H |-> "HIGH", ND |-> "NOT_DEFINED"],
               TD  |-> [N |-> "NONE", L |-> "LOW", M |-> "MEDIUM", H |-> "HIGH",
                        ND |-> "NOT_DEFINED"],
               CR  |-> ReqName2, IR |-> ReqName2, AR |-> ReqName2 ]

\* Metric names printed by the interactive builder (guide, section 2)
MetricName2 == [ AV |-> "Access Vector", AC |-> "Access Complexity", Au |-> "Authentication",
                 C |-> "Confidentiality Impact", I |-> "Integrity Impact",
                 A |-> "Availability Impact", E |-> "Exploitability",
                 RL |-> "Remediation Level", RC |-> "Report Confidence",
                 CDP |-> "Collateral Damage Potential", TD |-> "Target Distribution",
                 CR |-> "Confidentiality Requirement", IR |-> "Integrity Requirement",
                 AR |-> "Availability Requirement" ]
=============================================================================
