------------------------------ MODULE TraceOracle ------------------------------
(* The "spelling sample" of C01 / C02 / C03: string-level construct events (arbitrary spellings: any field order, optional
   metrics absent / Not Defined / defined, sparse and dense) whose scores are judged against the standards' score functions
   applied to the string as TLC parses it.  Uses the tabulated score functions (Score3Fast / Score2Fast).          *)
EXTENDS Vector, Score3Fast, Score2Fast, Json, IOUtils, TraceData
T == TraceData
VARIABLES i, ph
Init == i \in 1..Len(T) /\ ph = 0
Next == ph = 0 /\ ph' = 1 /\ i' = i
Spec == Init /\ [][Next]_<<i, ph>>
FastScores(ver, minor, g) == IF ver = "2" THEN Scores2Fast(Full("2", g)) ELSE IF ver = "3" THEN Scores3Fast(minor, Full("3", g))
                             ELSE <<Score4(Levels4(g))>>
Verdict(e) == LET p == Parse(e.ver, e.s) IN
              IF p.cls # "ok" \/ e.out.cls # "ok" THEN "ok"               \* acceptance is C04's business
              ELSE IF e.out.scores = FastScores(e.ver, p.minor, p.given) THEN "ok"
              ELSE "score spec=" \o ToString(FastScores(e.ver, p.minor, p.given)) \o " code=" \o ToString(e.out.scores)
Inv == ph = 0 \/ LET v == Verdict(T[i]) IN v = "ok" \/ PrintT("FAIL " \o ToString(i) \o " " \o v)
=============================================================================
