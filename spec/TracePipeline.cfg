SPECIFICATION TSpec
INVARIANT Report
INVARIANT Stuck
INVARIANT PipelineRefinesGrammar
CHECK_DEADLOCK FALSE
