SPECIFICATION Spec
INVARIANT Inv
CONSTANT Mode = "equiv"
CHECK_DEADLOCK FALSE
