SPECIFICATION Spec
INVARIANT Inv
CONSTANT Prop = "C15"
CHECK_DEADLOCK FALSE
