------------------------------ MODULE GenText ------------------------------
(* spec -> code: texts assembled from a vocabulary of pieces (valid vectors of every version, the
   shortest valid v2 vector and one character less, near-valid vectors, broken prefixes, fillers,
   glue).  TLC enumerates every sequence of at most MaxPieces pieces; each reachable state is one
   text, emitted as a GEN line for the replayer.  Pieces are in MC_GenText via the cfg.      *)
EXTENDS Sequences, Integers, TLC, Json
CONSTANTS Pieces, MaxPieces
VARIABLE text
Init == text = <<>>
Next == Len(text) < MaxPieces /\ \E p \in 1..Len(Pieces) : text' = Append(text, p)
Spec == Init /\ [][Next]_text
RECURSIVE Cat(_)
Cat(q) == IF q = <<>> THEN "" ELSE Pieces[q[1]] \o Cat(Tail(q))
Emit == text = <<>> \/ PrintT("GEN " \o ToJson([text |-> Cat(text)]))
=============================================================================
