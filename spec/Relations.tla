------------------------------ MODULE Relations ------------------------------
(* Rewrites of spelled vectors under which the standards' observables are invariant (C05, C06).
   A spelled vector is a sequence of <<metric, value>> fields behind a version prefix.
   This module is the *generator* of rewrite walks (spec -> code): TLC explores the rewrite
   actions from a pool of start vectors (file STARTS_FILE: sequence of [ver, minor, fields]) and
   emits every walk of length Depth as a GEN line; the replayer drives the real constructors
   along each walk and TraceWalks.tla judges the recorded observations (relation only).      *)
EXTENDS Vector, Json, IOUtils, FiniteSets
CONSTANTS Depth, Family,           \* Family \in {"C05","C06"}
          Dense                    \* TRUE: every swap and every insert position; FALSE: adjacent swaps and first/middle/last position
Starts == JsonDeserialize(IOEnv.STARTS_FILE)
VARIABLES ver, minor, fields, hist
vars == <<ver, minor, fields, hist>>

Present(fs) == {fs[k][1] : k \in 1..Len(fs)}
ValueOf(fs, m) == fs[CHOOSE k \in 1..Len(fs) : fs[k][1] = m][2]
Ins(fs, pos, f) == SubSeq(fs,1,pos-1) \o <<f>> \o SubSeq(fs,pos,Len(fs))
Del(fs, k) == SubSeq(fs,1,k-1) \o SubSeq(fs,k+1,Len(fs))
SwapF(fs,a,b) == [fs EXCEPT ![a] = fs[b], ![b] = fs[a]]
Set(fs, m, v) == IF m \in Present(fs) THEN [k \in 1..Len(fs) |-> IF fs[k][1] = m THEN <<m, v>> ELSE fs[k]]
                 ELSE Append(fs, <<m, v>>)
IsND(fs, m) == IF m \notin Present(fs) THEN TRUE ELSE ValueOf(fs, m) = NDOf(ver)
Optional(v) == MetricsOf(v) \ MandSetOf(v)
LegalVals(v, m) == SeqToSet(ValsOf(v)[m])
Step(name, nf) == fields' = nf /\ hist' = Append(hist, [op |-> name, fields |-> nf]) /\ UNCHANGED <<ver, minor>>

Init == \E k \in 1..Len(Starts) : /\ ver = Starts[k].ver /\ minor = Starts[k].minor /\ fields = Starts[k].fields
                                  /\ hist = <<[op |-> "init", fields |-> Starts[k].fields]>>
\* ---- C05 ---------------------------------------------------------------------------------
Swap == \E a, b \in 1..Len(fields) : a < b /\ (Dense \/ b = a + 1 \/ (a = 1 /\ b = Len(fields))) /\ Step("swap", SwapF(fields,a,b))
AddND == \E m \in Optional(ver) \ Present(fields), pos \in 1..(Len(fields)+1) :
            (Dense \/ pos \in {1, (Len(fields)+2) \div 2, Len(fields)+1}) /\ Step("addND", Ins(fields,pos,<<m,NDOf(ver)>>))
DropND == \E k \in 1..Len(fields) : fields[k][2] = NDOf(ver) /\ fields[k][1] \in Optional(ver) /\ Step("dropND", Del(fields,k))
\* ---- C06 ---------------------------------------------------------------------------------
ModBaseOf(v) == IF v = "3" THEN BaseOf3 ELSE IF v = "4" THEN BaseOf4 ELSE [x \in {} |-> ""]
NDEquivOf(v) == IF v = "2" THEN NDEquiv2 ELSE IF v = "3" THEN NDEquiv3 ELSE NDEquiv4
TemporalSet(v) == IF v = "2" THEN SeqToSet(Temporal2) ELSE IF v = "3" THEN SeqToSet(Temporal3) ELSE {}
EnvSet(v) == IF v = "2" THEN SeqToSet(Environmental2) ELSE IF v = "3" THEN SeqToSet(Environmental3) ELSE {}
\* (a) a Not Defined modified metric is set to its base metric's value
ModToBase == \E m \in DOMAIN ModBaseOf(ver) : IsND(fields, m) /\ ValueOf(fields, ModBaseOf(ver)[m]) \in LegalVals(ver, m)
                                             /\ Step("modToBase", Set(fields, m, ValueOf(fields, ModBaseOf(ver)[m])))
\* (b) a Not Defined metric is set to the value the standard declares equivalent
NDToEquiv == \E m \in DOMAIN NDEquivOf(ver) : IsND(fields, m) /\ Step("ndToEquiv", Set(fields, m, NDEquivOf(ver)[m]))
\* (c) v4 supplemental metrics added, changed or removed
SetSupp == ver = "4" /\ \/ \E m \in SeqToSet(Supplemental4) : \E v \in LegalVals("4", m) :
                              (IF m \notin Present(fields) THEN TRUE ELSE ValueOf(fields, m) # v) /\ Step("setSupp", Set(fields, m, v))
                        \/ \E k \in 1..Len(fields) : fields[k][1] \in SeqToSet(Supplemental4) /\ Step("setSupp", Del(fields, k))
\* (d) a base metric overridden by a defined modified metric is changed
ChangeOverridden == \E m \in DOMAIN ModBaseOf(ver) : ~IsND(fields, m) /\
                       \E v \in LegalVals(ver, ModBaseOf(ver)[m]) \ {ValueOf(fields, ModBaseOf(ver)[m])} :
                          Step("changeOverridden", Set(fields, ModBaseOf(ver)[m], v))
\* (e) temporal / environmental metrics change (base, resp. base and temporal, must stay)
ChangeTemporal == \E m \in TemporalSet(ver) : \E v \in LegalVals(ver, m) :
                     (IF m \notin Present(fields) THEN TRUE ELSE ValueOf(fields, m) # v) /\ Step("changeTemporal", Set(fields, m, v))
ChangeEnv == \E m \in EnvSet(ver) : \E v \in LegalVals(ver, m) :
                     (IF m \notin Present(fields) THEN TRUE ELSE ValueOf(fields, m) # v) /\ Step("changeEnv", Set(fields, m, v))
Next == Len(hist) < Depth /\ (IF Family = "C05" THEN Swap \/ AddND \/ DropND
                              ELSE ModToBase \/ NDToEquiv \/ SetSupp \/ ChangeOverridden \/ ChangeTemporal \/ ChangeEnv \/ Swap)
Spec == Init /\ [][Next]_vars
Emit == Len(hist) < Depth \/ PrintT("GEN " \o ToJson([ver |-> ver, minor |-> minor, walk |-> hist]))
\* design-level: every C05 walk keeps the defined part; every state stays grammatical
Spelled(fs) == PrefixStr(ver, minor) \o Join([k \in 1..Len(fs) |-> fs[k][1] \o ":" \o fs[k][2]], "/")
StaysValid == Classify(ver, Spelled(fields)) = "ok"
=============================================================================
