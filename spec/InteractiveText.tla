------------------------------ MODULE InteractiveText ------------------------------
(* The exact text of an interactive session (beyond the listed properties): header, per metric a line of value
   names with bracketed hints (optionally coloured with ANSI codes), and the prompt that is repeated until an
   answer is accepted.  Derived from the display tables by the builder's own rules:
     hint of a value name: every letter of the value abbreviation is bracketed wherever it occurs in the name,
       one letter after the other ("Clear" -> "(C)(l)(e)(a)(r)"); from version 3 on "Not Defined" is shown as
       "(X)Not Defined"; three v2 names are rewritten ("(P)roof-(O)f-(C)oncept", "(U)n(C)onfirmed", "(U)nco(R)roborated")
     colours: "(" -> ESC[33m ESC[1m, ")" -> ESC[0m, "|" -> ESC[94m ESC[1m | ESC[0m
   Text is in the escaped form of Chars.tla: ESC is {27}, a line feed is {10}.                                  *)
EXTENDS Interactive, DisplayTables
DispNameOf(bv) == IF bv = "2" THEN DispName2 ELSE IF bv = "4.0" THEN DispName4 ELSE DispName3
DispValsOf(bv) == IF bv = "2" THEN DispVals2 ELSE IF bv = "4.0" THEN DispVals4 ELSE DispVals3
AskOrderOf(bv) == IF bv = "2" THEN AskOrder2 ELSE IF bv = "4.0" THEN AskOrder4 ELSE AskOrder3
RECURSIVE ReplaceAll(_,_,_)
ReplaceAll(s, c, r) == IF s = "" THEN "" ELSE (IF Ch(s,1) = c THEN r ELSE Ch(s,1)) \o ReplaceAll(Tail(s), c, r)
RECURSIVE Bracket(_,_,_)
Bracket(name, val, k) == IF k > Len(val) THEN name ELSE Bracket(ReplaceAll(name, Ch(val,k), "(" \o Ch(val,k) \o ")"), val, k+1)
Hint(bv, val, name) == LET h == Bracket(name, val, 1) IN
                         IF bv # "2" /\ h = "Not Defined" THEN "(X)Not Defined"
                         ELSE IF bv = "2" /\ h = "(P)roof-of-(C)oncept" THEN "(P)roof-(O)f-(C)oncept"
                         ELSE IF bv = "2" /\ h = "(U)nconfirmed" THEN "(U)n(C)onfirmed"
                         ELSE IF bv = "2" /\ h = "(U)ncorroborated" THEN "(U)nco(R)roborated"
                         ELSE h
ESC == "{27}"
Colour(s) == ReplaceAll(ReplaceAll(ReplaceAll(s, "(", ESC \o "[33m" \o ESC \o "[1m"), ")", ESC \o "[0m"), "|", ESC \o "[94m" \o ESC \o "[1m|" \o ESC \o "[0m")
HintLine(bv, m, colours) == LET vs == DispValsOf(bv)[m]
                                  hs == Join([k \in 1..Len(vs) |-> Hint(bv, vs[k][1], vs[k][2])], " | ")
                              IN DispNameOf(bv)[m] \o ": " \o (IF colours THEN Colour(hs) ELSE hs)
PromptText(bv, m) == LET vs == DispValsOf(bv)[m] IN DispNameOf(bv)[m] \o ": " \o Join([k \in 1..Len(vs) |-> vs[k][1]], "/") \o " "
Header(bv) == "Interactive CVSS" \o (IF bv = "2" THEN "2" ELSE IF bv = "4.0" THEN "4" ELSE "3") \o " calculator"
NL == "{10}"
\* what is written between two reads: before the first question; before a repeated question; before the next metric's question
ShownFirst(bv, m, colours) == Header(bv) \o NL \o NL \o HintLine(bv, m, colours) \o NL \o PromptText(bv, m)
ShownRepeat(bv, m) == PromptText(bv, m)
ShownNext(bv, m, colours) == NL \o HintLine(bv, m, colours) \o NL \o PromptText(bv, m)
\* the display tables agree with the grammar's tables (same metrics, same values): checked once
TablesConsistent == \A bv \in BVersions :
   /\ SeqToSet(AskOrderOf(bv)) = MetricsOf(VerOf(bv))
   /\ \A m \in MetricsOf(VerOf(bv)) : {DispValsOf(bv)[m][k][1] : k \in 1..Len(DispValsOf(bv)[m])} = SeqToSet(ValsOf(VerOf(bv))[m])
ASSUME TablesConsistent
=============================================================================
