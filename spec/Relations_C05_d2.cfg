SPECIFICATION Spec
INVARIANT Emit
INVARIANT StaysValid
CONSTANT Depth = 2
CONSTANT Family = "C05"
CHECK_DEADLOCK FALSE
