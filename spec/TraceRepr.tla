------------------------------ MODULE TraceRepr ------------------------------
(* C09: every reported score is a float printed with exactly one decimal in [0.0, 10.0] (None only
   for an undefined v2 temporal / environmental score), and every severity source agrees with the
   official band of the *observed* score.
   Events: [ver, slot, repr, type, sev, jsev, attr] - the distinct observations of a recording. *)
EXTENDS Api, Json, IOUtils, TraceData
T == TraceData
VARIABLES i, ph
Init == i \in 1..Len(T) /\ ph = 0
Next == ph = 0 /\ ph' = 1 /\ i' = i
Spec == Init /\ [][Next]_<<i, ph>>
Verdict(e) ==
   IF e.type = "NoneType"
   THEN (IF e.ver = "2" /\ e.slot \in {2,3} /\ e.repr = "None" THEN (IF e.sev = "None" THEN "ok" ELSE "band-of-None") ELSE "None-outside-v2-optional-slots")
   ELSE IF e.type # "float" THEN "type"
   ELSE LET t == ParseScoreText(e.repr) IN
        IF t = -1 THEN "repr"
        ELSE IF e.sev # Band(e.ver, t) THEN "band"
        ELSE IF e.jsev # "-" /\ Upper(e.jsev) # Upper(e.sev) THEN "json-severity"
        ELSE IF e.attr # "-" /\ e.attr # e.sev THEN "attr-severity"
        ELSE "ok"
Inv == ph = 0 \/ LET v == Verdict(T[i]) IN v = "ok" \/ PrintT("FAIL " \o ToString(i) \o " " \o v)
=============================================================================
