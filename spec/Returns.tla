------------------------------ MODULE Returns ------------------------------
(* Every call into the library returns.

   The other modules describe a call as one atomic step from the argument to the result; this
   module states what that atomicity presupposes: a call that has started reaches its end
   whatever the argument (constructors, from_rh_vector, accessors, parse_cvss_from_text, the
   builder given a finite answer script, the calculator given a finite command line and input).
   A call is Start(c), any number of internal Work(c) steps bounded by a variant that every
   step decreases, and Finish(c); with weak fairness on the steps of a started call,
   Started(c) ~> Finished(c).

   Bug switch Diverge: some argument has a Work step that does not decrease the variant
   (a loop that re-reads the same answer, a pattern that backtracks for ever, a lock that is
   never released); then the leads-to fails (MC_Returns_bug.cfg).

   Binding to the code (harness/common.py run_driver, harness/drivers/obs.py hb): a driver names
   each input in its heartbeat before handing it to the library; the recording is accepted iff
   every heartbeat is followed by the next one (or by the end of the job) within a budget of
   processor time - the finite-trace reading of the leads-to.  The budget (300 processor
   seconds, or 20 minutes blocked without using the processor) is four orders of magnitude
   above what any input of the generators costs, so a slow but terminating call is not an alarm. *)
EXTENDS Naturals, FiniteSets
CONSTANTS Calls, MaxWork, Diverge      \* Diverge \subseteq Calls: the arguments on which the bug switch loops
VARIABLES phase, variant
rvars == <<phase, variant>>
RInit == phase = [c \in Calls |-> "idle"] /\ variant = [c \in Calls |-> 0]
Start(c) == /\ phase[c] = "idle"
            /\ \E w \in 0..MaxWork : variant' = [variant EXCEPT ![c] = w]
            /\ phase' = [phase EXCEPT ![c] = "running"]
Work(c) == /\ phase[c] = "running" /\ variant[c] > 0
           /\ variant' = [variant EXCEPT ![c] = IF c \in Diverge THEN @ ELSE @ - 1]
           /\ UNCHANGED phase
Finish(c) == /\ phase[c] = "running" /\ variant[c] = 0
             /\ phase' = [phase EXCEPT ![c] = "returned"] /\ UNCHANGED variant
RNext == \E c \in Calls : Start(c) \/ Work(c) \/ Finish(c)
RSpec == RInit /\ [][RNext]_rvars /\ \A c \in Calls : WF_rvars(Work(c) \/ Finish(c))
TypeOK == phase \in [Calls -> {"idle","running","returned"}] /\ variant \in [Calls -> 0..MaxWork]
EveryCallReturns == \A c \in Calls : (phase[c] = "running") ~> (phase[c] = "returned")
\* a returned call stays returned: results are delivered once
Once == [][\A c \in Calls : phase[c] = "returned" => phase'[c] = "returned"]_rvars
=============================================================================
