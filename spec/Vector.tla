------------------------------ MODULE Vector ------------------------------
(* Vector strings of CVSS v2 / v3.0 / v3.1 / v4.0: the grammar (declaratively), the canonical
   form, the sub-vectors, the official vectorString patterns of the FIRST JSON schemas, and the
   effective metric assignment that enters scoring.
   ver \in {"2","3","4"}; a parsed vector is [cls, minor, given] where given maps the metrics that
   were written to the values written.                                                     *)
EXTENDS Chars, Tables2, Tables3, Tables4, Score2, Score3, Score4

Versions == {"2","3","4"}
OrderOf(ver) == IF ver = "2" THEN Order2 ELSE IF ver = "3" THEN Order3 ELSE Official4
ValsOf(ver)  == IF ver = "2" THEN Vals2 ELSE IF ver = "3" THEN Vals3 ELSE Vals4
MandOf(ver)  == IF ver = "2" THEN Mand2 ELSE IF ver = "3" THEN Mand3 ELSE Mand4
NDOf(ver)    == IF ver = "2" THEN "ND" ELSE "X"
MSet2 == DOMAIN Vals2
MSet3 == DOMAIN Vals3
MSet4 == DOMAIN Vals4
MetricsOf(ver) == IF ver = "2" THEN MSet2 ELSE IF ver = "3" THEN MSet3 ELSE MSet4
MandSet2 == SeqToSet(Mand2)
MandSet3 == SeqToSet(Mand3)
MandSet4 == SeqToSet(Mand4)
MandSetOf(ver) == IF ver = "2" THEN MandSet2 ELSE IF ver = "3" THEN MandSet3 ELSE MandSet4
Legal(ver, m, v) == m \in MetricsOf(ver) /\ InSeq(v, ValsOf(ver)[m])

\* <<metric, value>> of a well-formed field, <<>> otherwise (split on ':' must give two parts)
Field(ver, f) == LET p == Split(f, ":") IN
                 IF Len(p) # 2 THEN <<>> ELSE IF Legal(ver, p[1], p[2]) THEN <<p[1], p[2]>> ELSE <<>>

\* length of the version prefix, -1 if the string does not carry the prefix of that version
PrefixLen(ver, s) == IF ver = "2" THEN 0
                     ELSE IF ver = "3" THEN (IF StartsWith(s,"CVSS:3.0/") \/ StartsWith(s,"CVSS:3.1/") THEN 9 ELSE -1)
                     ELSE (IF StartsWith(s,"CVSS:4.0/") THEN 9 ELSE -1)
MinorOf(ver, s) == IF ver = "3" THEN (IF StartsWith(s,"CVSS:3.0/") THEN 0 ELSE 1) ELSE -1
EmptyFn == [x \in {} |-> ""]
Rejected(c) == [cls |-> c, minor |-> -1, given |-> EmptyFn]

Parse(ver, s) ==
  IF s = "" \/ EndsWith(s, "/") \/ PrefixLen(ver, s) < 0 THEN Rejected("malformed")
  ELSE LET fs == Split(DropPrefix(s, PrefixLen(ver, s)), "/")
           ps == TLCEval([k \in 1..Len(fs) |-> Field(ver, fs[k])])
       IN IF \E k \in 1..Len(fs) : ps[k] = <<>> THEN Rejected("malformed")
          ELSE IF \E x, y \in 1..Len(fs) : x < y /\ ps[x][1] = ps[y][1] THEN Rejected("malformed")
          ELSE LET g == TLCEval([mm \in {ps[k][1] : k \in 1..Len(fs)} |->
                           ps[CHOOSE k \in 1..Len(fs) : ps[k][1] = mm][2]])
               IN IF ~(MandSetOf(ver) \subseteq DOMAIN g) THEN Rejected("mandatory")
                  ELSE [cls |-> "ok", minor |-> MinorOf(ver, s), given |-> g]
Classify(ver, s) == Parse(ver, s).cls

\* every metric with the value written, or Not Defined
Full(ver, g) == [mm \in MetricsOf(ver) |-> IF mm \in DOMAIN g THEN g[mm] ELSE NDOf(ver)]
\* the defined part of a vector: what equality is about
Defined(ver, g) == {<<mm, g[mm]>> : mm \in {x \in DOMAIN g : g[x] # NDOf(ver)}}
PrefixStr(ver, minor) == IF ver = "2" THEN "" ELSE IF ver = "3" THEN (IF minor = 0 THEN "CVSS:3.0/" ELSE "CVSS:3.1/")
                         ELSE "CVSS:4.0/"
RECURSIVE SelectFields(_,_,_,_)
SelectFields(ver, g, order, k) ==
   IF k > Len(order) THEN <<>>
   ELSE (IF order[k] \in DOMAIN g /\ g[order[k]] # NDOf(ver) THEN <<order[k] \o ":" \o g[order[k]]>> ELSE <<>>)
        \o SelectFields(ver, g, order, k+1)
\* canonical form: defined metrics only, once each, in the standard's order
Clean(ver, minor, g, withPrefix) ==
   (IF withPrefix THEN PrefixStr(ver, minor) ELSE "") \o Join(SelectFields(ver, g, OrderOf(ver), 1), "/")

\* sub-vectors (v2, v3): every metric of the group, in order, with the value written, or ND / X,
\* or - for a v3 modified metric that is absent or X - the base metric's value
SubValue(ver, g, mm) == IF mm \in DOMAIN g /\ g[mm] # NDOf(ver) THEN g[mm]
                        ELSE IF ver = "3" /\ mm \in DOMAIN BaseOf3 THEN g[BaseOf3[mm]]
                        ELSE NDOf(ver)
SubVector(ver, g, group) == Join([k \in 1..Len(group) |-> group[k] \o ":" \o SubValue(ver, g, group[k])], "/")
TemporalVector(ver, g) == SubVector(ver, g, IF ver = "2" THEN Temporal2 ELSE Temporal3)
EnvironmentalVector(ver, g) == SubVector(ver, g, IF ver = "2" THEN Environmental2 ELSE Environmental3)

\* ---- effective assignment and scores ----------------------------------------------------
Eff4(g, b) == IF b \in DOMAIN ModOf4 /\ ModOf4[b] \in DOMAIN g /\ g[ModOf4[b]] # "X" THEN g[ModOf4[b]]
              ELSE IF b \in DOMAIN g /\ g[b] # "X" THEN g[b]
              ELSE NDEquiv4[b]            \* only E, CR, IR, AR can be absent / X here
Levels4(g) == <<LvAV[Eff4(g,"AV")], LvPR[Eff4(g,"PR")], LvUI[Eff4(g,"UI")],
                LvAC[Eff4(g,"AC")], LvAT[Eff4(g,"AT")],
                LvV[Eff4(g,"VC")], LvV[Eff4(g,"VI")], LvV[Eff4(g,"VA")],
                LvSC[Eff4(g,"SC")], LvS[Eff4(g,"SI")], LvS[Eff4(g,"SA")],
                LvR[Eff4(g,"CR")], LvR[Eff4(g,"IR")], LvR[Eff4(g,"AR")], LvE[Eff4(g,"E")]>>
\* scores in tenths: <<base, temporal, environmental>> (v2: -1 = not defined), v4: <<score>>
ScoresOf(ver, minor, g) == IF ver = "2" THEN Scores2(Full("2", g))
                           ELSE IF ver = "3" THEN Scores3(minor, Full("3", g))
                           ELSE <<Score4(Levels4(g))>>

\* ---- the vectorString patterns of the four FIRST JSON schemas, as grammar predicates --------
\* v2: ^((field)/)*(field)$            any order, repetitions allowed, nothing mandatory
\* v3.x: ^CVSS:3.x/((field)/)*(field)$  ('.' unescaped in the official pattern: any character);
\*       the 3.0 pattern additionally admits PR:U and MPR:U
\* v4: ^CVSS:4[.]0/ base metrics in order, then optional metrics at most once each in the order
\*       Threat, Environmental, Supplemental
PatternField(pv, f) ==
   IF pv = "2" THEN Field("2", f) # <<>>
   ELSE IF pv = "4" THEN Field("4", f) # <<>>
   ELSE Field("3", f) # <<>> \/ (pv = "3.0" /\ f \in {"PR:U","MPR:U"})
RECURSIVE Increasing(_,_)
Increasing(q, k) == IF k >= Len(q) THEN TRUE ELSE (q[k] < q[k+1] /\ Increasing(q, k+1))
\* number of characters that one original character occupies at position k of an escaped string; 0 if there is none
\* or it is a line feed (the '.' of a regular expression does not match it)
EscEnd(s, k) == IndexFrom(s, "}", k)
OneCharLen(s, k) == IF k > Len(s) THEN 0
                    ELSE IF Ch(s,k) # "{" THEN 1
                    ELSE IF EscEnd(s, k) = 0 THEN 0
                    ELSE IF SubSeq(s, k, EscEnd(s, k)) = "{10}" THEN 0 ELSE EscEnd(s, k) - k + 1
OfficialPattern(pv, s) ==
   IF pv = "2" THEN LET fs == Split(s, "/") IN \A k \in 1..Len(fs) : PatternField("2", fs[k])
   ELSE IF pv \in {"3.0","3.1"} THEN
        /\ Len(s) >= 10 /\ SubSeq(s,1,6) = "CVSS:3"
        /\ LET w == OneCharLen(s, 7) IN        \* the unescaped '.' of the official pattern: any one character
           /\ w > 0 /\ Len(s) >= 8 + w /\ Ch(s,7+w) = (IF pv = "3.0" THEN "0" ELSE "1") /\ Ch(s,8+w) = "/"
           /\ LET fs == Split(DropPrefix(s,8+w), "/") IN \A k \in 1..Len(fs) : PatternField(pv, fs[k])
   ELSE /\ StartsWith(s, "CVSS:4.0/")
        /\ LET fs == Split(DropPrefix(s,9), "/") IN
           /\ \A k \in 1..Len(fs) : PatternField("4", fs[k])
           /\ Len(fs) >= Len(Base4)
           /\ LET ix == [k \in 1..Len(fs) |-> IndexIn(Field("4", fs[k])[1], Official4)] IN
              /\ \A k \in 1..Len(Base4) : ix[k] = k
              /\ Increasing(ix, 1)
PatternVersion(ver, minor) == IF ver = "2" THEN "2" ELSE IF ver = "4" THEN "4" ELSE IF minor = 0 THEN "3.0" ELSE "3.1"
=============================================================================
