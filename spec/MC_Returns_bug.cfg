SPECIFICATION RSpec
CONSTANTS
  Calls = {"a","b","c"}
  MaxWork = 3
  Diverge <- SomeDiverge
INVARIANT TypeOK
PROPERTY EveryCallReturns
CHECK_DEADLOCK FALSE
