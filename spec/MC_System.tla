------------------------------ MODULE MC_System ------------------------------
EXTENDS System
InputsDef == { <<"ok","CVSS:3.0/","AV:N/...">>, <<"ok","CVSS:3.1/","AV:N/...">>, <<"bad","","x">> }
SmallAccessors == {"scores","clean","json_sm","mutate_json"}
\* the bounded model calls a representative subset of accessors (the replay uses all of them)
MCOldNext == \/ \E t \in Threads, i \in Inputs : Begin(t, i)
             \/ \E kind \in EntryPoints : EntryPoint(kind)
             \/ \E o \in 1..MaxObjs : Copy(o)
             \/ \E t \in Threads : StepParse(t) \/ StepMandatory(t) \/ StepFill(t) \/ \E k \in 4..6 : StepScore(t, k)
             \/ \E o \in 1..MaxObjs, acc \in SmallAccessors : Call(o, acc)
MCNewNext == \/ \E t \in Threads, o \in 1..MaxObjs, acc \in {"clean", "json_sm"} : CallBegin(t, o, acc)
             \/ \E t \in Threads : CallEnd(t) \/ Abort(t)
             \/ \E i \in Inputs : LowPrecConstruct(i)
MCNext == (MCOldNext /\ UNCHANGED xvars) \/ MCNewNext
MCSpec == Init /\ [][MCNext]_vars
=============================================================================
