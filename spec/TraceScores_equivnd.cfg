SPECIFICATION Spec
INVARIANT Inv
CONSTANT Mode = "equivnd"
CHECK_DEADLOCK FALSE
