SPECIFICATION TSpec
INVARIANT Report
INVARIANT Stuck
CONSTANT CheckPattern = TRUE
CHECK_DEADLOCK FALSE
