SPECIFICATION RSpec
CONSTANTS
  Calls = {"a","b","c"}
  MaxWork = 3
  Diverge <- NoDiverge
INVARIANT TypeOK
PROPERTY EveryCallReturns
PROPERTY Once
CHECK_DEADLOCK FALSE
