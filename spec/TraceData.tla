------------------------------ MODULE TraceData ------------------------------
(* The recorded trace (JSON file named by the environment variable TRACE_FILE), parsed ONCE.
   A constant definition T == JsonDeserialize(...) is evaluated by TLC once per worker thread (16
   workers: 17 parses of a 15 MB file took 22 s of a 28 s run).  Instead the file is parsed by this
   ASSUME on TLC's main thread before model checking starts and kept in a TLC register that all
   workers inherit; d = d forces deep normalisation there, so workers only ever read the value. *)
EXTENDS TLC, Json, IOUtils
ASSUME TraceLoaded == LET d == JsonDeserialize(IOEnv.TRACE_FILE) IN TLCSet(40, d) /\ d = d
TraceData == TLCGet(40)
=============================================================================
