------------------------------ MODULE Score3Fast ------------------------------
(* Tabulation of Score3.tla for bulk evaluation.  The base / modified-base score depends on the
   vector only through (polynomial, scope, capped impact base, product of the four exploitability
   weights); the table below holds Final(...) of Score3.tla for every such key that the weight
   tables can produce (16 320 keys, computed once per TLC run from Tables3.tla, about 5 s).
   Scores3Fast = Scores3 by construction; MC_Score3 checks it on every base vector and on a
   seeded sample of full vectors.                                                          *)
EXTENDS Score3, FiniteSets, IOUtils
Rng(f) == {f[x] : x \in DOMAIN f}
ReqWeighted == {(w * r) \div 10 : w \in Rng(WCIA3), r \in Rng(WREQ3)}
IBSet == {Min(IB6(x,y,z), 915000) : x \in ReqWeighted, y \in ReqWeighted, z \in ReqWeighted}
ESet(scope) == {av*ac*pr*ui : av \in Rng(WAV3), ac \in Rng(WAC3), pr \in Rng(IF scope = "C" THEN WPRC3 ELSE WPRU3), ui \in Rng(WUI3)}
FinalKeys == UNION { {<<p, sc, ib, e>> : p \in {30,31}, ib \in IBSet, e \in ESet(sc)} : sc \in {"U","C"} }
\* TLC does not reliably pre-evaluate a large constant definition, and a function constructor is
\* lazy; so the tables are computed once by the ASSUME below (on TLC's main thread, before model
\* checking starts) and kept in TLC registers, which worker threads inherit.
ISCTabDef == [k \in {30,31} \X {"U","C"} \X IBSet |->
                TLCEval(IF k[1] = 30 THEN ISC30(k[2], k[3]) ELSE ISC31(k[2], k[3]))]
FinalTabDef(isc) == [k \in FinalKeys |->
               Final(k[2], isc[<<k[1],k[2],k[3]>>], IMulS(IOf(k[4]), 822), IF k[1] = 30 THEN 92 ELSE 132)]
\* (only when the run needs v3 scores: environment variable NEED_V3=1; building the table takes ~5 s)
NeedV3 == "NEED_V3" \in DOMAIN IOEnv /\ IOEnv.NEED_V3 = "1"
ASSUME Score3FastInit == IF NeedV3 THEN LET isc == TLCEval(ISCTabDef) IN TLCSet(33, TLCEval(FinalTabDef(isc))) ELSE TLCSet(33, <<>>)
FinalTab == TLCGet(33)
Base3Fast(m) == FinalTab[<<30, m.S, IB6(WCIA3[m.C],WCIA3[m.I],WCIA3[m.A]),
                           WAV3[m.AV]*WAC3[m.AC]*PRW(m.S,m.PR)*WUI3[m.UI]>>]
ModBase3Fast(minor, m) ==
   LET ms == Eff3(m,"MS") IN
   FinalTab[<<IF minor = 0 THEN 30 ELSE 31, ms, MIB6(m),
              WAV3[Eff3(m,"MAV")]*WAC3[Eff3(m,"MAC")]*PRW(ms, Eff3(m,"MPR"))*WUI3[Eff3(m,"MUI")]>>]
Scores3Fast(minor, m) == Scores3From(Base3Fast(m), ModBase3Fast(minor,m), m)
=============================================================================
