------------------------------ MODULE TraceCli ------------------------------
(* Trace validation of command-line runs.  An event carries the argument list, the stdin answers,
   exit status, stdout lines, a traceback indicator, the JSON document found in stdout, and per
   candidate builder version the vector in play and what the library API reports for it
   (drivers/cli.py).  The verdict fixes values, not layout.                                 *)
EXTENDS CliOps, CmdLine, Json, IOUtils, TLC, TraceData
T == TraceData
VARIABLES i, ph
Init == i \in 1..Len(T) /\ ph = 0
Next == ph = 0 /\ ph' = 1 /\ i' = i
Spec == Init /\ [][Next]_<<i, ph>>

RECURSIVE NonEmpty(_)
NonEmpty(q) == IF q = <<>> THEN <<>> ELSE (IF q[1] = "" THEN <<>> ELSE <<q[1]>>) \o NonEmpty(Tail(q))
\* (a report line is short; a line of thousands of characters is a run of repeated prompts and is not tokenised)
Tokens(line) == IF Len(line) > 2000 THEN {} ELSE SeqToSet(NonEmpty(Split(line, " ")))
\* flags of an argument list (the vector flag counts only with a non-empty value)
RECURSIVE FlagsOf(_,_)
FlagsOf(args, k) == IF k > Len(args) THEN {}
                    ELSE IF args[k] \in {"-v","--vector"} THEN (IF k < Len(args) /\ args[k+1] # "" THEN {"v"} ELSE {}) \cup FlagsOf(args, k+2)
                    ELSE (CASE args[k] = "-2" -> {"2"} [] args[k] = "-3" -> {"3"} [] args[k] = "-4" -> {"4"}
                            [] args[k] \in {"-a","--all"} -> {"a"} [] args[k] \in {"-n","--no-colors"} -> {"n"}
                            [] args[k] \in {"-j","--json"} -> {"j"} [] OTHER -> {"?"}) \cup FlagsOf(args, k+1)
\* does the output report what the library says for candidate b ?
Matches(e, b) ==
   LET r == e.ref[b]  L == r.lib  lines == e.stdout  n == Len(lines)
       tok == TLCEval([k \in 1..n |-> Tokens(lines[k])])
       ver == IF b = "2" THEN "2" ELSE IF b = "4.0" THEN "4" ELSE "3"
   IN IF r.kind = "EofError" THEN "ok"                       \* nothing to report; status / traceback are checked separately
      ELSE IF r.kind # "Return" THEN "builder-failed"
      ELSE IF L.cls = "crash" THEN "library-crash"
      ELSE IF L.cls = "error" THEN (IF (\E k \in 1..n : lines[k] = L.msg) \/ IsSubstring(L.msg \o "{10}", e.stdout_text) THEN "ok" ELSE "error-message-not-printed")
      ELSE LET ns == Len(L.strs)
               slotLine(s, k) == L.strs[s] \in tok[k] /\ (ver = "2" \/ ("(" \o L.sev[s] \o ")") \in tok[k])
               LinesOf(s) == {k \in 1..n : slotLine(s, k)}
               inj == IF ns = 1 THEN LinesOf(1) # {}
                      ELSE \E a \in LinesOf(1) : \E bb \in LinesOf(2) \ {a} : \E cc \in LinesOf(3) \ {a, bb} : TRUE
           IN IF ~inj THEN "score-lines"
              ELSE IF ~\E k \in 1..n : L.clean \in tok[k] THEN "cleaned-vector-not-printed"
              ELSE IF ~\E k \in 1..n : L.rh \in tok[k] THEN "rh-vector-not-printed"
              ELSE IF "j" \in FlagsOf(e.args, 1) /\ ~e.json_found THEN "json-missing"
              ELSE IF "j" \in FlagsOf(e.args, 1) /\ e.json_doc # L.json_sm THEN "json-differs-from-sorted-minimal"
              ELSE "ok"
\* e.args is the normalised argument list, e.argv what was actually typed (CmdLine.tla relates the two)
CliVerdict(e) ==
   LET fl == FlagsOf(e.args, 1) IN
   IF "?" \in fl THEN "ok"                                   \* not a command line of the property
   ELSE IF Normalize(e.argv) # e.args THEN "harness-normalisation-disagrees-with-CmdLine"
   ELSE IF e.rc # 0 THEN "exit-status-" \o ToString(e.rc)
   ELSE IF e.traceback THEN "traceback"
   ELSE IF e.closed = "stdout" THEN "ok"                     \* started with standard output closed: nothing can be printed, status and traceback are judged
   ELSE LET res == {Matches(e, b) : b \in Selected(fl)} IN
        IF "ok" \in res THEN "ok" ELSE CHOOSE x \in res : TRUE
Inv == ph = 0 \/ LET v == CliVerdict(T[i]) IN v = "ok" \/ PrintT("FAIL " \o ToString(i) \o " " \o v)
=============================================================================
