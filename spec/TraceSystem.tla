------------------------------ MODULE TraceSystem ------------------------------
(* Trace validation for C18 / C19: recorded histories of accessor calls, API calls, configured
   runs and (forced or free-running) concurrent constructions, against the meaning System.tla
   gives them: every step leaves every object and the process globals unchanged (UNCHANGED
   heap / globals / out), and every result is the function of its own input that the
   reference run (pristine twin object, fresh interpreter process) reports.
   A history is [kind, g0, steps]; a step is
     [label, res, ref, exc, g, out, proj0, proj]   digests as strings; proj0/proj = digest of the
                                                 object's complete state before / after the step
   Any interleaving of steps of different threads is accepted (events are ordered per thread). *)
EXTENDS Sequences, Integers, TLC, Json, IOUtils, TraceData
T == TraceData
VARIABLES i, ph
Init == i \in 1..Len(T) /\ ph = 0
Next == ph = 0 /\ ph' = 1 /\ i' = i
Spec == Init /\ [][Next]_<<i, ph>>
First(S) == CHOOSE x \in S : \A y \in S : x <= y
HistVerdict(e) ==
   LET n == Len(e.steps)
       raised == {k \in 1..n : e.steps[k].exc # "-" /\ e.steps[k].exc # e.steps[k].refexc}
       mutated == {k \in 1..n : e.steps[k].proj # e.steps[k].proj0}
       globalsTouched == {k \in 1..n : e.steps[k].g # e.g0}
       wrote == {k \in 1..n : e.steps[k].out # 0}
       differs == {k \in 1..n : e.steps[k].res # e.steps[k].ref}
       \* repeated calls with the same label on the same object return equal results
       unstable == {k \in 1..n : \E j \in 1..(k-1) : e.steps[j].label = e.steps[k].label /\ e.steps[j].res # e.steps[k].res}
       At(S, what) == what \o ":" \o e.steps[First(S)].label \o ":step" \o ToString(First(S))
   IN IF raised # {} THEN At(raised, "raised-" \o e.steps[First(raised)].exc)
      ELSE IF mutated # {} THEN At(mutated, "object-state-changed")
      ELSE IF globalsTouched # {} THEN At(globalsTouched, "process-globals-changed")
      ELSE IF wrote # {} THEN At(wrote, "wrote-to-stdout-or-stderr")
      ELSE IF differs # {} THEN At(differs, "result-differs-from-reference")
      ELSE IF unstable # {} THEN At(unstable, "repeated-call-differs")
      ELSE "ok"
Inv == ph = 0 \/ LET v == HistVerdict(T[i]) IN v = "ok" \/ PrintT("FAIL " \o ToString(i) \o " " \o v)
=============================================================================
