SPECIFICATION GSpec
INVARIANT Emit
CHECK_DEADLOCK FALSE
