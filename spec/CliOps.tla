------------------------------ MODULE CliOps ------------------------------
(* Flag vocabulary and version selection of the command-line calculator (shared by the stage
   machine Cli.tla and the trace specification TraceCli.tla).                              *)
EXTENDS Vector, FiniteSets
AllFlags == {"2","3","4","a","n","j","v"}
\* builder versions the calculator may select: one of the flagged versions, 3.1 if none is flagged
Selected(flags) == IF flags \cap {"2","3","4"} = {} THEN {"3.1"}
                   ELSE {IF f = "2" THEN "2" ELSE IF f = "3" THEN "3.0" ELSE "4.0" : f \in flags \cap {"2","3","4"}}
=============================================================================
