SPECIFICATION Spec
INVARIANT Inv
CONSTANT Mode = "specall"
CHECK_DEADLOCK FALSE
