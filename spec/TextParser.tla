------------------------------ MODULE TextParser ------------------------------
(* parse_cvss_from_text: the extraction contract (C13) as predicates over (text, result).
     total      the call returns (a list), it does not raise
     sound      every returned object was built from a substring of the text that is a valid
                vector of the object's class
     complete   every valid v2 / v3 vector that occurs delimited on both sides by characters
                outside [A-Za-z:/] (or the text boundary) is returned (up to equality)
     distinct   no two returned objects are equal
   The delimited candidates are computed from the maximal runs of class characters:
   (v2) every maximal run; (v3) a run that is exactly "CVSS:" followed by "3.<digit>" and a run
   that starts with "/".  Nothing else can be a delimited occurrence: the only non-class
   characters inside a v3 vector are the "3.d" of its own prefix.                          *)
EXTENDS Api, Json, IOUtils, FiniteSets
InClass(c) == c \in Letters \/ c = ":" \/ c = "/"
\* maximal runs of class characters: sequence of <<from, to>>
RECURSIVE Runs(_,_,_)
Runs(s,k,from) == IF k > Len(s) THEN (IF from > 0 THEN << <<from,Len(s)>> >> ELSE <<>>)
                  ELSE IF InClass(Ch(s,k)) THEN Runs(s,k+1, IF from > 0 THEN from ELSE k)
                  ELSE (IF from > 0 THEN << <<from,k-1>> >> ELSE <<>>) \o Runs(s,k+1,0)
Cand2(t) == LET rs == Runs(t,1,0) IN {SubSeq(t, rs[k][1], rs[k][2]) : k \in 1..Len(rs)}
Cand3(t) == LET rs == Runs(t,1,0) IN
            {SubSeq(t, rs[k][1], rs[k+1][2]) : k \in {q \in 1..(Len(rs)-1) :
                 /\ SubSeq(t, rs[q][1], rs[q][2]) = "CVSS:"
                 /\ rs[q+1][1] = rs[q][2] + 4
                 /\ Ch(t, rs[q][2]+1) = "3" /\ Ch(t, rs[q][2]+2) = "." /\ Ch(t, rs[q][2]+3) \in Digits
                 /\ Ch(t, rs[q+1][1]) = "/"}}
Key(ver, p) == <<ver, p.minor, Defined(ver, p.given)>>
TextVerdict(e) ==
   IF e.out.cls # "ok" THEN "raised-" \o e.out.e.exc
   ELSE IF e.out.type # "list" THEN "not-a-list"
   ELSE LET t == e.text  res == e.out.res  n == Len(res)
            P == TLCEval([k \in 1..n |-> TLCEval(Parse(res[k].ver, res[k].vector))])
            keys == {Key(res[k].ver, P[k]) : k \in 1..n}
            want2 == {Key("2", Parse("2", c)) : c \in {x \in Cand2(t) : Classify("2", x) = "ok"}}
            want3 == {Key("3", Parse("3", c)) : c \in {x \in Cand3(t) : Classify("3", x) = "ok"}}
        IN IF \E k \in 1..n : res[k].ver \notin Versions THEN "foreign-object"
           ELSE IF \E k \in 1..n : ~IsSubstring(res[k].vector, t) THEN "unsound-not-a-substring"
           ELSE IF \E k \in 1..n : P[k].cls # "ok" THEN "unsound-invalid-vector"
           ELSE IF ~(want2 \subseteq keys) THEN "incomplete-v2"
           ELSE IF ~(want3 \subseteq keys) THEN "incomplete-v3"
           ELSE IF \E a, b \in 1..n : a # b /\ (e.out.eq[a][b] \/ Key(res[a].ver, P[a]) = Key(res[b].ver, P[b])) THEN "duplicate"
           ELSE "ok"
=============================================================================
