SPECIFICATION CSpec
INVARIANT ExitsZero
INVARIANT SelectionFlagged
INVARIANT Emit
PROPERTY AlwaysExits
CHECK_DEADLOCK FALSE
