------------------------------ MODULE Pipeline ------------------------------
(* The constructor pipeline, one action per method the constructors call, in their order:
     v2: parse_vector, check_mandatory, compute_base_score, compute_temporal_score, compute_environmental_score
     v3: parse_vector, check_mandatory, handle_scope, add_missing_optional, compute_base_score, compute_temporal_score,
         compute_environmental_score
     v4: parse_vector, check_mandatory, add_missing_optional, compute_base_score, compute_severity
   with the object's state after every step: the metric map (as parsed so far when parsing fails - the parser
   machine's progress -, as written after parsing, with Not Defined modified metrics filled from their base metrics
   after add_missing_optional), the preserved original map, and the scores computed so far.
   A step that fails raises and ends the construction (no object).  TracePipeline.tla validates step-level traces
   recorded with sys.settrace against these actions.                                                          *)
EXTENDS ParserMachine
VARIABLES pver, pstr, pk, metrics, original, pscores, pminor, pstate     \* pstate \in {"running","raised","done"}
pvars == <<pver, pstr, pk, metrics, original, pscores, pminor, pstate>>
StepsOf(ver) == IF ver = "2" THEN <<"parse_vector","check_mandatory","compute_base_score","compute_temporal_score","compute_environmental_score">>
                ELSE IF ver = "3" THEN <<"parse_vector","check_mandatory","handle_scope","add_missing_optional","compute_base_score",
                                         "compute_temporal_score","compute_environmental_score">>
                ELSE <<"parse_vector","check_mandatory","add_missing_optional","compute_base_score","compute_severity">>
NoMap == [x \in {} |-> ""]
PInit(ver, s) == /\ pver = ver /\ pstr = s /\ pk = 1 /\ metrics = NoMap /\ original = <<"none">> /\ pscores = <<-1,-1,-1>>
                 /\ pminor = -1 /\ pstate = "running"
Cur == StepsOf(pver)[pk]
Advance == pk' = pk + 1 /\ pstate' = (IF pk = Len(StepsOf(pver)) THEN "done" ELSE "running")
Raise == pk' = pk /\ pstate' = "raised"
MapOf(got) == [m \in {got[k][1] : k \in 1..Len(got)} |-> got[CHOOSE k \in 1..Len(got) : got[k][1] = m][2]]
\* v3 minor version is set as soon as the prefix has been recognised
MinorSeen(mo) == IF pver = "3" /\ mo.pc = "done" /\ PrefixLen("3", pstr) >= 0 /\ pstr # "" /\ ~EndsWith(pstr, "/") THEN MinorOf("3", pstr) ELSE -1
ParseVector == /\ pstate = "running" /\ Cur = "parse_vector"
               /\ LET mo == Machine(pver, pstr) IN
                  /\ metrics' = MapOf(mo.got)
                  /\ pminor' = MinorSeen(mo)
                  /\ IF mo.cls = "malformed" THEN Raise ELSE Advance
               /\ UNCHANGED <<pver, pstr, original, pscores>>
CheckMandatory == /\ pstate = "running" /\ Cur = "check_mandatory"
                  /\ IF MandSetOf(pver) \subseteq DOMAIN metrics THEN Advance ELSE Raise
                  /\ UNCHANGED <<pver, pstr, metrics, original, pscores, pminor>>
HandleScope == /\ pstate = "running" /\ Cur = "handle_scope" /\ Advance
               /\ UNCHANGED <<pver, pstr, metrics, original, pscores, pminor>>
Filled3(g) == [m \in DOMAIN g \cup DOMAIN BaseOf3 |-> IF m \in DOMAIN BaseOf3 /\ (m \notin DOMAIN g \/ g[m] = "X") THEN g[BaseOf3[m]] ELSE g[m]]
FillX4 == {"S","AU","R","V","RE","U","CR","IR","AR","E"}
Filled4(g) == [m \in DOMAIN g \cup DOMAIN BaseOf4 \cup FillX4 |->
                 IF m \in DOMAIN BaseOf4 /\ (m \notin DOMAIN g \/ g[m] = "X") THEN g[BaseOf4[m]]
                 ELSE IF m \in DOMAIN g THEN g[m] ELSE "X"]
AddMissingOptional == /\ pstate = "running" /\ Cur = "add_missing_optional"
                      /\ original' = metrics
                      /\ metrics' = (IF pver = "3" THEN Filled3(metrics) ELSE Filled4(metrics))
                      /\ Advance /\ UNCHANGED <<pver, pstr, pscores, pminor>>
\* the scores are functions of the map *as written* (original for v3/v4, metrics for v2)
Written == IF pver = "2" THEN metrics ELSE original
Spec3 == ScoresOf(pver, pminor, Written)
ComputeBase == /\ pstate = "running" /\ Cur = "compute_base_score"
               /\ pscores' = <<Spec3[1], -1, -1>> /\ Advance /\ UNCHANGED <<pver, pstr, metrics, original, pminor>>
ComputeTemporal == /\ pstate = "running" /\ Cur = "compute_temporal_score"
                   /\ pscores' = <<pscores[1], Spec3[2], -1>> /\ Advance /\ UNCHANGED <<pver, pstr, metrics, original, pminor>>
ComputeEnvironmental == /\ pstate = "running" /\ Cur = "compute_environmental_score"
                        /\ pscores' = <<pscores[1], pscores[2], Spec3[3]>> /\ Advance /\ UNCHANGED <<pver, pstr, metrics, original, pminor>>
ComputeSeverity == /\ pstate = "running" /\ Cur = "compute_severity" /\ Advance
                   /\ UNCHANGED <<pver, pstr, metrics, original, pscores, pminor>>
PNext == ParseVector \/ CheckMandatory \/ HandleScope \/ AddMissingOptional \/ ComputeBase \/ ComputeTemporal \/ ComputeEnvironmental \/ ComputeSeverity
\* the pipeline ends in an object exactly when the grammar accepts the string
PipelineRefinesGrammar == (pstate = "done" => Classify(pver, pstr) = "ok") /\ (pstate = "raised" => Classify(pver, pstr) # "ok")
=============================================================================
