SPECIFICATION PMSpec
INVARIANT Refines
CHECK_DEADLOCK FALSE
