SPECIFICATION PMSpec
INVARIANT Refines
INVARIANT Emit
CHECK_DEADLOCK FALSE
