------------------------------ MODULE Api ------------------------------
(* Observable functions of a constructed object other than the scores themselves:
   qualitative severity ratings, printed scores, Red Hat notation, equality.          *)
EXTENDS Vector

\* FIRST qualitative severity rating scale (v3.x section 5, v4.0 section 6), scores in tenths
Band34(t) == IF t = 0 THEN "None" ELSE IF t <= 39 THEN "Low" ELSE IF t <= 69 THEN "Medium"
             ELSE IF t <= 89 THEN "High" ELSE "Critical"
\* NVD ranking for v2; "None" for an undefined (temporal / environmental) score
Band2(t) == IF t = -1 THEN "None" ELSE IF t <= 39 THEN "Low" ELSE IF t <= 69 THEN "Medium" ELSE "High"
Band(ver, t) == IF ver = "2" THEN Band2(t) ELSE Band34(t)
SeveritiesOf(ver, sc) == [k \in 1..Len(sc) |-> Band(ver, sc[k])]

\* the value in tenths of a well-formed printed score ("d.d" or "10.0"), -1 if not well-formed
\* (so "10", "7.300000000000001", "-0.0", "07.5", "10.1" are all rejected)
ParseScoreText(s) == IF Len(s) = 3 /\ Ch(s,1) \in Digits /\ Ch(s,2) = "." /\ Ch(s,3) \in Digits
                        THEN 10 * DigitVal(Ch(s,1)) + DigitVal(Ch(s,3))
                     ELSE IF s = "10.0" THEN 100 ELSE -1

\* equality of objects: same class, same minor version, same defined metric values
EqObj(ver1, minor1, g1, ver2, minor2, g2) == ver1 = ver2 /\ minor1 = minor2 /\ Defined(ver1, g1) = Defined(ver2, g2)
=============================================================================
