------------------------------ MODULE Api ------------------------------
(* Observable functions of a constructed object other than the scores themselves:
   qualitative severity ratings, printed scores, Red Hat notation, equality.          *)
EXTENDS Vector

\* FIRST qualitative severity rating scale (v3.x section 5, v4.0 section 6), scores in tenths
Band34(t) == IF t = 0 THEN "None" ELSE IF t <= 39 THEN "Low" ELSE IF t <= 69 THEN "Medium"
             ELSE IF t <= 89 THEN "High" ELSE "Critical"
\* NVD ranking for v2; "None" for an undefined (temporal / environmental) score
Band2(t) == IF t = -1 THEN "None" ELSE IF t <= 39 THEN "Low" ELSE IF t <= 69 THEN "Medium" ELSE "High"
Band(ver, t) == IF ver = "2" THEN Band2(t) ELSE Band34(t)
SeveritiesOf(ver, sc) == [k \in 1..Len(sc) |-> Band(ver, sc[k])]

\* the value in tenths of a well-formed printed score ("d.d" or "10.0"), -1 if not well-formed
\* (so "10", "7.300000000000001", "-0.0", "07.5", "10.1" are all rejected)
ParseScoreText(s) == IF Len(s) = 3 /\ Ch(s,1) \in Digits /\ Ch(s,2) = "." /\ Ch(s,3) \in Digits
                        THEN 10 * DigitVal(Ch(s,1)) + DigitVal(Ch(s,3))
                     ELSE IF s = "10.0" THEN 100 ELSE -1

\* ---- Red Hat notation -------------------------------------------------------------------
\* Python's float() literal grammar restricted to ASCII (the drivers generate nothing else):
\*   [blanks] [sign] ( digitpart [. [digitpart]] | . digitpart ) [ (e|E) [sign] digitpart ] [blanks]
\*   | [blanks] [sign] (inf | infinity | nan) [blanks]          (case-insensitive)
\* digitpart = digit ( [_] digit )*        (underscores between digits: Python >= 3.6)
IsDigitPart(s) == /\ s # "" /\ Ch(s,1) \in Digits /\ Ch(s,Len(s)) \in Digits
                  /\ \A k \in 1..Len(s) : Ch(s,k) \in Digits \/ (Ch(s,k) = "_" /\ Ch(s,k-1) \in Digits /\ Ch(s,k+1) \in Digits)
StripSign(s) == IF s # "" /\ Ch(s,1) \in {"+","-"} THEN Tail(s) ELSE s
IsNegative(s) == s # "" /\ Ch(s,1) = "-"
\* position of the exponent marker, 0 if none
ExpPos(s) == LET a == IndexFrom(s,"e",1)  b == IndexFrom(s,"E",1) IN IF a = 0 THEN b ELSE IF b = 0 THEN a ELSE IF a < b THEN a ELSE b
Mantissa(s) == IF ExpPos(s) = 0 THEN s ELSE SubSeq(s,1,ExpPos(s)-1)
ExpPart(s) == IF ExpPos(s) = 0 THEN "" ELSE SubSeq(s,ExpPos(s)+1,Len(s))
IntPart(m) == IF IndexFrom(m,".",1) = 0 THEN m ELSE SubSeq(m,1,IndexFrom(m,".",1)-1)
FracPart(m) == IF IndexFrom(m,".",1) = 0 THEN "" ELSE SubSeq(m,IndexFrom(m,".",1)+1,Len(m))
IsMantissa(m) == LET ip == IntPart(m)  fp == FracPart(m) IN
                 /\ (ip # "" \/ fp # "")
                 /\ (ip = "" \/ IsDigitPart(ip)) /\ (fp = "" \/ IsDigitPart(fp))
IsSpecialFloat(u) == Upper(u) \in {"INF","INFINITY","NAN"}
\* Python's float() strips white space; besides the blank the drivers use tab, LF, VT, FF, CR, which travel as escapes
WSEsc == {"{9}","{10}","{11}","{12}","{13}"}
RECURSIVE LStripWS(_)
LStripWS(s) == IF s # "" /\ Ch(s,1) = " " THEN LStripWS(Tail(s))
               ELSE IF Len(s) >= 3 /\ SubSeq(s,1,3) \in WSEsc THEN LStripWS(SubSeq(s,4,Len(s)))
               ELSE IF Len(s) >= 4 /\ SubSeq(s,1,4) \in WSEsc THEN LStripWS(SubSeq(s,5,Len(s)))
               ELSE s
RECURSIVE RStripWS(_)
RStripWS(s) == IF s # "" /\ Ch(s,Len(s)) = " " THEN RStripWS(SubSeq(s,1,Len(s)-1))
               ELSE IF Len(s) >= 3 /\ SubSeq(s,Len(s)-2,Len(s)) \in WSEsc THEN RStripWS(SubSeq(s,1,Len(s)-3))
               ELSE IF Len(s) >= 4 /\ SubSeq(s,Len(s)-3,Len(s)) \in WSEsc THEN RStripWS(SubSeq(s,1,Len(s)-4))
               ELSE s
StripWS(s) == RStripWS(LStripWS(s))
IsFloatLiteral(raw) == LET s == StripSign(StripWS(raw)) IN
                       \/ IsSpecialFloat(s)
                       \/ /\ IsMantissa(Mantissa(s))
                          /\ (ExpPos(s) = 0 \/ IsDigitPart(StripSign(ExpPart(s))))
\* digits of a digit part without underscores, as a sequence of small integers
RECURSIVE DigitsOf(_)
DigitsOf(s) == IF s = "" THEN <<>> ELSE (IF Ch(s,1) = "_" THEN <<>> ELSE <<DigitVal(Ch(s,1))>>) \o DigitsOf(Tail(s))
RECURSIVE SmallVal(_,_)
SmallVal(ds, acc) == IF ds = <<>> THEN acc ELSE IF acc > 100000000 THEN acc ELSE SmallVal(Tail(ds), 10*acc + ds[1])
RECURSIVE StripLeadZ(_)
StripLeadZ(ds) == IF ds # <<>> /\ ds[1] = 0 THEN StripLeadZ(Tail(ds)) ELSE ds
RECURSIVE StripTrailZ(_)
StripTrailZ(ds) == IF ds # <<>> /\ ds[Len(ds)] = 0 THEN StripTrailZ(SubSeq(ds,1,Len(ds)-1)) ELSE ds
\* does the finite literal denote exactly t/10 (t in 0..100)?  value = D * 10^(e - |frac|), D = int ++ frac digits
LiteralEqualsTenths(raw, t) ==
   LET s0 == StripWS(raw)  s == StripSign(s0)  m == Mantissa(s)
       ip == DigitsOf(IntPart(m))  fp == DigitsOf(FracPart(m))
       all == StripLeadZ(ip \o fp)
       sig == StripTrailZ(all)                         \* significant digits
       ex == IF ExpPos(s) = 0 THEN 0
             ELSE LET x == ExpPart(s) IN (IF IsNegative(x) THEN -1 ELSE 1) * SmallVal(DigitsOf(StripSign(x)), 0)
       pow == ex - Len(fp) + (Len(all) - Len(sig))    \* value = sig * 10^pow
       td == IF t = 0 THEN <<>> ELSE IF t % 10 = 0 THEN (IF t = 100 THEN <<1>> ELSE <<t \div 10>>) ELSE (IF t > 10 THEN <<t \div 10, t % 10>> ELSE <<t>>)
       tp == IF t = 0 THEN 0 ELSE IF t = 100 THEN 1 ELSE IF t % 10 = 0 THEN 0 ELSE -1
   IN IF IsSpecialFloat(s) THEN FALSE
      ELSE IF sig = <<>> THEN t = 0                    \* zero, of either sign
      ELSE IF IsNegative(s0) THEN FALSE
      ELSE sig = td /\ pow = tp
\* class of outcome of from_rh_vector(ver, s) given the base score (tenths) the library computes
\* for the vector part; -1 when the vector part is not accepted
RhSplit(s) == LET k == IndexFrom(s,"/",1) IN IF k = 0 THEN <<>> ELSE <<SubSeq(s,1,k-1), SubSeq(s,k+1,Len(s))>>
FromRhClass(ver, s, base) ==
   IF RhSplit(s) = <<>> THEN "rhmalformed"
   ELSE IF ~IsFloatLiteral(RhSplit(s)[1]) THEN "rhmalformed"
   ELSE LET c == Classify(ver, RhSplit(s)[2]) IN
        IF c # "ok" THEN c
        ELSE IF LiteralEqualsTenths(RhSplit(s)[1], base) THEN "ok" ELSE "rhmismatch"

\* equality of objects: same class, same minor version, same defined metric values
EqObj(ver1, minor1, g1, ver2, minor2, g2) == ver1 = ver2 /\ minor1 = minor2 /\ Defined(ver1, g1) = Defined(ver2, g2)
=============================================================================
