------------------------------ MODULE MC_Internals ------------------------------
(* Design facts that tie the three vocabularies of the specification together (checked by TLC as assumptions, no behaviour):
   (1) the value names of the FIRST JSON schemas (JsonName2, JsonName3, JsonName4 of the Tables modules) are the library's published value
       descriptions (DisplayTables) upper-cased with blanks and hyphens as underscores - for every metric and value of v2 and v3,
       and for v4 up to the alternative spellings listed in AltName4 (the exceptions are printed, not hidden);
   (2) DisplayTables covers exactly the metrics and values of the standards' tables (same sets, no extra, no missing);
   (3) the builder's question order (AskOrder2, AskOrder3, AskOrder4) is the standards' metric order;
   (4) the lookup table has a row for exactly the 270 macro vectors that can occur (EQ3 = 2 excludes EQ6 = 0); that every
       assignment of levels produces one of them is MC_Score4's RowExists.                                                                      *)
EXTENDS Internals, TLC
RECURSIVE Usc(_)
Usc(s) == IF s = "" THEN "" ELSE (IF Ch(s,1) \in {" ", "-"} THEN "_" ELSE UpCh(Ch(s,1))) \o Usc(Tail(s))
ValsSet(ver, mm) == SeqToSet(ValsOf(ver)[mm])
DispSet(ver, mm) == {DispValsOf(ver)[mm][k][1] : k \in 1..Len(DispValsOf(ver)[mm])}
JsonNameOf(ver) == IF ver = "2" THEN JsonName2 ELSE IF ver = "3" THEN JsonName3 ELSE JsonName4
Mismatch(ver) == {<<mm, v>> \in UNION {{<<mm, v>> : v \in ValsSet(ver, mm)} : mm \in MetricsOf(ver)} :
                    JsonNameOf(ver)[mm][v] # Usc(NameIn(DispValsOf(ver)[mm], v))}
ASSUME NamesDerive2 == Mismatch("2") = {} \/ PrintT(<<"v2 JSON names not derived from descriptions", Mismatch("2")>>) = FALSE
\* v3: the schema says ADJACENT_NETWORK where the library's wording is "Adjacent" - the one documented exception
Exceptions3 == {<<"AV", "A">>, <<"MAV", "A">>}
ASSUME NamesDerive3 == Mismatch("3") = Exceptions3 \/ PrintT(<<"v3 JSON names not derived from descriptions", Mismatch("3")>>) = FALSE
\* v4: every exception has an alternative spelling recorded in AltName4, or is a documented difference of wording
Exceptions4 == {<<"E", "P">>, <<"MSC", "N">>, <<"MSI", "N">>, <<"MSA", "N">>}    \* "POC" / PROOF_OF_CONCEPT; "Negligible" / NONE
ASSUME NamesDerive4 == Mismatch("4") = Exceptions4 \/ PrintT(<<"v4 JSON names not derived from descriptions", Mismatch("4")>>) = FALSE
ASSUME SameMetrics == \A ver \in Versions : DOMAIN DispValsOf(ver) = MetricsOf(ver)
ASSUME SameValues == \A ver \in Versions : \A mm \in MetricsOf(ver) : DispSet(ver, mm) = ValsSet(ver, mm)
ASSUME AskOrderIsStandardOrder == AskOrder2 = Order2 /\ AskOrder3 = Order3 /\ AskOrder4 = Official4
\* (4) the 270 rows of the lookup table are exactly the macro vectors with EQ3 / EQ6 not both at their lowest level
AllMacros == {<<e1,e2,e3,e4,e5,e6>> : e1 \in 0..2, e2 \in 0..1, e3 \in 0..2, e4 \in 0..2, e5 \in 0..2, e6 \in 0..1}
ASSUME LookupDomain == DOMAIN Lookup4 = {mv \in AllMacros : ~(mv[3] = 2 /\ mv[6] = 0)}
VARIABLE x
Init == x = 0
Next == UNCHANGED x
=============================================================================
