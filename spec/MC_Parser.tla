------------------------------ MODULE MC_Parser ------------------------------
(* Design check: the parser machine refines the declarative grammar on every string of a
   bounded neighbourhood: all strings obtained from a short valid vector of each version by at
   most one edit (delete / replace / insert a character of a 12-character alphabet, at any
   position), for all three constructors.                                              *)
EXTENDS ParserMachine, TLC, Json, IOUtils
Alphabet == <<"A","V",":","/","N","X","L","C","3","."," ","a">>
\* seed vectors: three built-in ones, or - when SEEDS_FILE is set - the run's own (JSON array of strings)
DefaultSeeds == << "AV:N/AC:L/Au:N/C:P/I:P/A:C", "CVSS:3.1/AV:N/AC:L/PR:N/UI:N/S:U/C:H/I:H/A:N/E:X",
                   "CVSS:4.0/AV:N/AC:L/AT:N/PR:N/UI:N/VC:H/VI:H/VA:H/SC:N/SI:N/SA:N/E:A" >>
Seeds == IF "SEEDS_FILE" \in DOMAIN IOEnv THEN JsonDeserialize(IOEnv.SEEDS_FILE) ELSE DefaultSeeds
Edits(s) == {s} \cup {SubSeq(s,1,k-1) \o SubSeq(s,k+1,Len(s)) : k \in 1..Len(s)}
            \cup {SubSeq(s,1,k-1) \o Alphabet[a] \o SubSeq(s,k+1,Len(s)) : k \in 1..Len(s), a \in 1..Len(Alphabet)}
            \cup {SubSeq(s,1,k) \o Alphabet[a] \o SubSeq(s,k+1,Len(s)) : k \in 0..Len(s), a \in 1..Len(Alphabet)}
\* the machine as a TLA+ behaviour (used by MC_Parser)
VARIABLE pm
PMNext == pm.pc # "done" /\ pm' = MStep(pm)
Refines == pm.pc = "done" => pm.cls = Classify(pm.ver, pm.s)
PMInit == \E q \in 1..Len(Seeds) : \E s \in Edits(Seeds[q]) : \E ver \in Versions : pm = MInit(ver, s)
PMSpec == PMInit /\ [][PMNext]_pm
\* spec -> code: every string of the neighbourhood is emitted once (with the constructor "2") for the replayer
Emit == ~(pm.pc = "empty" /\ pm.ver = "2") \/ PrintT("GEN " \o ToJson([s |-> pm.s]))
=============================================================================
