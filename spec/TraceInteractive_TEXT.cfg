SPECIFICATION TSpec
INVARIANT Report
INVARIANT Stuck
CONSTANT CheckPattern = FALSE
CONSTANT CheckText = TRUE
CHECK_DEADLOCK FALSE
