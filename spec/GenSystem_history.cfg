SPECIFICATION GSpec
INVARIANT Emit
INVARIANT ObjectsAreFunctionsOfInput
INVARIANT GlobalsUntouched
INVARIANT ResultsDependOnInputOnly
INVARIANT AccessorResultsAreFunctionsOfTheObject
CONSTANTS
  Threads = {t1}
  Inputs = {}
  MaxObjs = 3
  MaxCalls = 4
  Mode = "history"
  BugSharedScratch = FALSE
  BugCache = FALSE
  BugAccessorMutates = FALSE
  BugJsonAlias = FALSE
  BugEntryPointWritesTables = FALSE
  BugCopyDiffers = FALSE
  BugMemoPublishedEarly = FALSE
  BugCacheIgnoresContext = FALSE
CHECK_DEADLOCK FALSE
