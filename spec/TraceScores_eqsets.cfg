SPECIFICATION Spec
INVARIANT Inv
CONSTANT Mode = "eqsets"
CHECK_DEADLOCK FALSE
