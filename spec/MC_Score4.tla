------------------------------ MODULE MC_Score4 ------------------------------
(* Design check of Score4.tla on the specification alone, over ALL 15 116 544 tuples of
   effective severity levels <<AV,PR,UI,AC,AT,VC,VI,VA,SC,SI,SA,CR,IR,AR,E>>:
     RowExists            every reachable macrovector has a lookup row
     Dominated            every vector is dominated by a highest-severity vector of each class
     GapsNonNegative      the score never exceeds that of an existing next-lower macrovector's source
     DistanceWithinDepth  every severity distance is within the class depth
     TieMarginOK          common denominator <= 12 000: a binary-float evaluation plus EPSILON = 1e-6
                          cannot round differently from the exact half-up
     InRange, Agree       0..100; the lean Score4 equals the one derived from Pieces
   and on the lookup table: monotone in every macrovector digit.                           *)
EXTENDS Score4
CONSTANTS N, W
VARIABLE k
Radix == <<4,3,3,2,2,3,3,3,3,4,4,3,3,3,3>>
Off   == <<0,0,0,0,0,0,0,0,1,0,0,0,0,0,0>>
RECURSIVE Dec(_,_)
Dec(x, i) == IF i > 15 THEN <<>> ELSE <<(x % Radix[i]) + Off[i]>> \o Dec(x \div Radix[i], i+1)
Init == k \in 0..(W-1)
Next == k + W < N /\ k' = k + W
Spec == Init /\ [][Next]_k
A == Dec(k, 1)
InvRowExists == RowExists(A)
InvDominated == Dominated(A)
InvGaps == GapsNonNegative(A)
InvDistance == DistanceWithinDepth(A)
InvTie == TieMarginOK(A)
InvRange == InRange(A)
InvAgree == Score4(A) = Score4ViaPieces(A)
\* the lookup table is monotone: raising any macrovector digit (less severe) never raises the score
LookupMonotone == \A mv \in DOMAIN Lookup4 : \A d \in 1..6 :
                     LET mv2 == [mv EXCEPT ![d] = mv[d] + 1] IN mv2 \in DOMAIN Lookup4 => Lookup4[mv2] <= Lookup4[mv]
ASSUME LookupMonotone
ASSUME Cardinality(DOMAIN Lookup4) = 270
=============================================================================
