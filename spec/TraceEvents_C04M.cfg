SPECIFICATION Spec
INVARIANT Inv
CONSTANT Prop = "C04M"
CHECK_DEADLOCK FALSE
