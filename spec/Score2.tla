------------------------------ MODULE Score2 ------------------------------
(* CVSS v2 equations (guide section 3.2) in exact integer arithmetic.
   A vector is a record m with a value for each of the 14 metrics ("ND" when absent or ND).
   Scores are returned in tenths; -1 stands for "not defined" (None).                    *)
EXTENDS BigInt, Tables2, TLC

\* round a small signed integer quotient v/d to the nearest integer, half away from zero
RoundDivSmall(v, d) == IF v >= 0 THEN (2*v + d) \div (2*d) ELSE -((2*(-v) + d) \div (2*d))
\* round a signed BigInt at scale 10^K to tenths (half away from zero): <<tenths, is a negative tie>>
RoundTenths(v, K) == LET d == NDivPow10(v.m, K-2)  h == NVal(d[1],1)
                         up == (h % 10) >= 5  t == (h \div 10) + (IF up THEN 1 ELSE 0)
                     IN <<IF v.n THEN -t ELSE t, v.n /\ (h % 10) = 5 /\ ~d[2]>>
\* Impact = 10.41*(1-(1-C)*(1-I)*(1-A))                                  at scale 10^17
Impact17(m) == IShift10(IMulS(IOf(1000000000 - (1000-WCIA2[m.C])*(1000-WCIA2[m.I])*(1000-WCIA2[m.A])), 1041), 6)
F5(x) == ISub(IOf(100000), IOf(x))      \* 1 - x at scale 10^5 (x = impact x1000 * requirement x100)
\* AdjustedImpact = min(10, 10.41*(1-(1-C*CR)*(1-I*IR)*(1-A*AR)))        at scale 10^17
\* (x, y, z = impact weight x1000 times requirement weight x100 of C, I, A)
AdjImpact17P(x, y, z) == LET p == IMul(IMul(F5(x), F5(y)), F5(z))
                             raw == IMulS(ISub(IShift10(IOf(1),15), p), 1041)
                         IN IMin(raw, IShift10(IOf(10),17))
AdjImpact17(m) == AdjImpact17P(WCIA2[m.C]*WREQ2[m.CR], WCIA2[m.I]*WREQ2[m.IR], WCIA2[m.A]*WREQ2[m.AR])
AdjImpactCapped(m) == LET p == IMul(IMul(F5(WCIA2[m.C]*WREQ2[m.CR]), F5(WCIA2[m.I]*WREQ2[m.IR])), F5(WCIA2[m.A]*WREQ2[m.AR]))
                      IN ICmp(IMulS(ISub(IShift10(IOf(1),15), p), 1041), IShift10(IOf(10),17)) > 0
\* Exploitability = 20*AV*AC*Au                                           at scale 10^8
\* (e = product of the three exploitability weights, x1000 x100 x1000)
ExplProd(m) == WAV2[m.AV] * WAC2[m.AC] * WAU2[m.Au]
Expl8E(e) == IOf(20 * e)
Expl8(m) == Expl8E(ExplProd(m))
\* round(((0.6*Impact)+(0.4*Exploitability)-1.5)*f(Impact)), f = 0 if Impact = 0 else 1.176
BaseEqE(e, imp17) == IF IZero(imp17) THEN <<0, FALSE>>
                     ELSE LET x == ISub(IAdd(IMulS(imp17,6), IShift10(IMulS(Expl8E(e),4), 9)), IShift10(IOf(15),17))  \* scale 10^18
                          IN RoundTenths(IMulS(x,1176), 21)
BaseEq(m, imp17) == BaseEqE(ExplProd(m), imp17)
Max0(x) == IF x < 0 THEN 0 ELSE x
TempEq(b, m) == RoundDivSmall(b * WE2[m.E] * WRL2[m.RL] * WRC2[m.RC], 1000000)
AllND2(m, ks) == \A k \in 1..Len(ks) : m[ks[k]] = "ND"
\* raw (unclamped) adjusted base, shared by a whole table row
AdjBase(m) == BaseEq(m, AdjImpact17(m))[1]
RawBase(m) == BaseEq(m, Impact17(m))[1]
EnvEq(at, m) == RoundDivSmall((at*10 + (100-at)*WCDP2[m.CDP]) * WTD2[m.TD], 1000)
ScoresFrom(rb, ab, m) ==
   LET b == Max0(rb)
       t == IF AllND2(m, Temporal2) THEN -1 ELSE Max0(TempEq(b, m))
       e == IF AllND2(m, Environmental2) THEN -1 ELSE Max0(EnvEq(TempEq(ab, m), m))
   IN <<b, t, e>>
Scores2(m) == ScoresFrom(RawBase(m), AdjBase(m), m)
\* an observable difference between "half-up" and "half away from zero" would need one of these
NegTie2(m) == BaseEq(m, AdjImpact17(m))[2] \/ BaseEq(m, Impact17(m))[2]
=============================================================================
