------------------------------ MODULE TraceScores ------------------------------
(* Trace specification for score tables recorded from the implementation (code -> spec),
   and - with Mode = "spec" - the same checks on the specification's own functions (design level).

   Input (JSON object, file named by the environment variable TRACE_FILE):
     tables : sequence of table headers
        [ver, minor, slots, fixed : partial assignment,
         outer : sequence of dimensions, inner : sequence of dimensions]
        a dimension is [name, opts], opts a sequence of partial assignments (records
        metric |-> value; the empty record means "nothing written")
     rows   : sequence of [t (table, 1-based), o (option index per outer dimension, 1-based),
                           obs (slots ints per inner combination, last inner dimension fastest;
                                tenths, -1 = None),
                           samples : sequence of [j, s] - entry index and the exact string the
                                driver gave to the constructor]
   Checks per row (Mode selects):
     "oracle" : obs = ScoresOf(...) for every entry          (C01, C02, C03)
     "mono"   : obs never decreases along one severity step in one inner dimension (C14),
                no oracle involved
     "spec"   : like "mono" but on the specification's own scores (design check for C14)
   In every mode the sample strings are re-parsed and must denote the decoded assignment.    *)
EXTENDS Vector, Score3Fast, Score2Fast, Json, IOUtils, FiniteSets, TraceData
CONSTANTS Mode
Data == TraceData
Tables == Data.tables
Rows == Data.rows
\* one cheap state <<i, 0>> per row (all of them initial, so the queue holds every row and the
\* workers balance dynamically); its successor <<i, 1>> carries the verdict of row i
VARIABLES i, ph
Init == i \in 1..Len(Rows) /\ ph = 0
Next == ph = 0 /\ ph' = 1 /\ i' = i
Spec == Init /\ [][Next]_<<i, ph>>

\* ---- decoding ---------------------------------------------------------------------------
RECURSIVE MergeSeq(_,_)
MergeSeq(q, k) == IF k > Len(q) THEN EmptyFn ELSE q[k] @@ MergeSeq(q, k+1)
Radix(dims) == [d \in 1..Len(dims) |-> Len(dims[d].opts)]
RECURSIVE StrideR(_,_)
\* stride of dimension d (last dimension has stride 1)
StrideR(rad, d) == IF d = Len(rad) THEN 1 ELSE rad[d+1] * StrideR(rad, d+1)
Strides(dims) == [d \in 1..Len(dims) |-> StrideR(Radix(dims), d)]
Size(dims) == IF Len(dims) = 0 THEN 1 ELSE Radix(dims)[1] * Strides(dims)[1]
\* partial assignment written by the inner combination j (0-based)
InnerAsg(h, str, j) == MergeSeq([d \in 1..Len(h.inner) |-> h.inner[d].opts[((j \div str[d]) % Len(h.inner[d].opts)) + 1]], 1)
OuterAsg(h, o) == MergeSeq([d \in 1..Len(h.outer) |-> h.outer[d].opts[o[d]]], 1) @@ h.fixed
\* the vector string in canonical spelling for an assignment g (every written metric once, table order)
RECURSIVE Spell(_,_,_)
Spell(g, order, k) == IF k > Len(order) THEN <<>>
                      ELSE (IF order[k] \in DOMAIN g THEN <<order[k] \o ":" \o g[order[k]]>> ELSE <<>>) \o Spell(g, order, k+1)
SpellOrder(ver) == IF ver = "4" THEN Base4 \o Supplemental4 \o Modified4 \o EnvReq4 \o Threat4 ELSE OrderOf(ver)
VectorOf(h, g) == PrefixStr(h.ver, h.minor) \o Join(Spell(g, SpellOrder(h.ver), 1), "/")

Slot(row, h, j, k) == row.obs[j * h.slots + k]

\* fast decoding of whole rows: every metric is written by at most one dimension (checked by
\* Disjoint), so the full assignment of entry j is a per-metric selection
Writers(h, k) == {d \in 1..Len(h.inner) : \E p \in 1..Len(h.inner[d].opts) : k \in DOMAIN h.inner[d].opts[p]}
Disjoint(h, og) == \A k \in MetricsOf(h.ver) : Cardinality(Writers(h, k)) <= 1 /\ (Writers(h, k) # {} => k \notin DOMAIN og)
Owner(h) == [k \in MetricsOf(h.ver) |-> IF Writers(h, k) = {} THEN 0 ELSE CHOOSE d \in Writers(h, k) : TRUE]
\* (TLCEval at every level: TLC's function constructors are lazy, an unevaluated inner function
\*  would be recomputed on every application)
OptFull(h) == [d \in 1..Len(h.inner) |-> TLCEval([p \in 1..Len(h.inner[d].opts) |-> TLCEval(Full(h.ver, h.inner[d].opts[p]))])]
EntryFull(h, own, tab, ctx, str, j) ==
   [k \in MetricsOf(h.ver) |-> IF own[k] = 0 THEN ctx[k]
                               ELSE tab[own[k]][((j \div str[own[k]]) % Len(tab[own[k]])) + 1][k]]
Eff4F(m, b) == IF b \in DOMAIN ModOf4 /\ m[ModOf4[b]] # "X" THEN m[ModOf4[b]]
               ELSE IF m[b] # "X" THEN m[b] ELSE NDEquiv4[b]
Levels4F(m) == <<LvAV[Eff4F(m,"AV")], LvPR[Eff4F(m,"PR")], LvUI[Eff4F(m,"UI")],
                 LvAC[Eff4F(m,"AC")], LvAT[Eff4F(m,"AT")],
                 LvV[Eff4F(m,"VC")], LvV[Eff4F(m,"VI")], LvV[Eff4F(m,"VA")],
                 LvSC[Eff4F(m,"SC")], LvS[Eff4F(m,"SI")], LvS[Eff4F(m,"SA")],
                 LvR[Eff4F(m,"CR")], LvR[Eff4F(m,"IR")], LvR[Eff4F(m,"AR")], LvE[Eff4F(m,"E")]>>
\* v4 fast path: an entry's level tuple is a per-position selection among per-dimension level
\* tuples, because the effective value of a metric depends only on that metric and its modified
\* twin (Eff4) and each such family is written by at most one dimension (FamiliesDisjoint)
Fam4(k) == IF k \in DOMAIN BaseOf4 THEN BaseOf4[k] ELSE k
FamWriters(h, f) == {d \in 1..Len(h.inner) : \E p \in 1..Len(h.inner[d].opts) : \E k \in DOMAIN h.inner[d].opts[p] : Fam4(k) = f}
FamiliesDisjoint(h, og) == \A f \in MSet4 : Cardinality(FamWriters(h, f)) <= 1
                                              /\ (FamWriters(h, f) # {} => \A k \in DOMAIN og : Fam4(k) # f)
FirstOpts(h, except) == MergeSeq([e \in 1..Len(h.inner) |-> IF e = except THEN EmptyFn ELSE h.inner[e].opts[1]], 1)
DimLevels(h, og) == [d \in 1..Len(h.inner) |-> TLCEval([p \in 1..Len(h.inner[d].opts) |->
                        Levels4(h.inner[d].opts[p] @@ FirstOpts(h, d) @@ og)])]
PosOwner(h, lv) == [x \in 1..15 |-> LET ds == {d \in 1..Len(h.inner) : \E p \in 1..Len(lv[d]) : lv[d][p][x] # lv[d][1][x]}
                                    IN IF ds = {} THEN 0 ELSE CHOOSE d \in ds : TRUE]
EL(lv, po, str, j, x) == IF po[x] = 0 THEN lv[1][1][x] ELSE lv[po[x]][((j \div str[po[x]]) % Len(lv[po[x]])) + 1][x]
EntryLevels(lv, po, str, j) == <<EL(lv,po,str,j,1), EL(lv,po,str,j,2), EL(lv,po,str,j,3), EL(lv,po,str,j,4), EL(lv,po,str,j,5),
                                 EL(lv,po,str,j,6), EL(lv,po,str,j,7), EL(lv,po,str,j,8), EL(lv,po,str,j,9), EL(lv,po,str,j,10),
                                 EL(lv,po,str,j,11), EL(lv,po,str,j,12), EL(lv,po,str,j,13), EL(lv,po,str,j,14), EL(lv,po,str,j,15)>>
ScoresOfFull(ver, minor, m) == IF ver = "2" THEN Scores2Fast(m) ELSE IF ver = "3" THEN Scores3Fast(minor, m)
                               ELSE <<Score4(Levels4F(m))>>

\* ---- oracle mode ------------------------------------------------------------------------
OracleRow(row, h) ==
   LET og == TLCEval(OuterAsg(h, row.o))  str == TLCEval(Strides(h.inner))  n == Size(h.inner)
       own == TLCEval(Owner(h))  tab == TLCEval(OptFull(h))  ctx == TLCEval(Full(h.ver, og))
       lv == TLCEval(DimLevels(h, og))  po == TLCEval(PosOwner(h, lv))
       bad == IF h.ver = "4" THEN {j \in 0..(n-1) : Score4(EntryLevels(lv, po, str, j)) # row.obs[j+1]}
              ELSE {j \in 0..(n-1) : LET sc == ScoresOfFull(h.ver, h.minor, EntryFull(h, own, tab, ctx, str, j))
                                      IN \E k \in 1..h.slots : sc[k] # Slot(row, h, j, k)}
   IN IF ~Disjoint(h, og) \/ (h.ver = "4" /\ ~FamiliesDisjoint(h, og)) THEN "shape-disjoint" ELSE IF bad = {} THEN "ok"
      ELSE LET j == CHOOSE x \in bad : \A y \in bad : x <= y
               g == InnerAsg(h, str, j) @@ og
           IN "score " \o VectorOf(h, g) \o " spec=" \o ToString(ScoresOf(h.ver, h.minor, g))
              \o " code=" \o ToString([k \in 1..h.slots |-> Slot(row, h, j, k)]) \o " nbad=" \o ToString(Cardinality(bad))

\* ---- samples: the driver's strings denote the decoded assignments ---------------------------
SamplesOK(row, h) ==
   LET og == OuterAsg(h, row.o)  str == Strides(h.inner) IN
   \A q \in 1..Len(row.samples) :
      LET p == Parse(h.ver, row.samples[q].s) IN
      p.cls = "ok" /\ p.minor = h.minor /\ p.given = InnerAsg(h, str, row.samples[q].j) @@ og

\* ---- monotonicity (relation only) ----------------------------------------------------------
RankOf(ver) == IF ver = "2" THEN Rank2 ELSE Rank3
\* v2/v3: options p,q of a dimension are one step apart when they write the same metrics, differ
\* in exactly one metric m, and rank(q[m]) = rank(p[m]) + 1.  Returns the metric or "".
StepMetric23(ver, p, q) ==
   IF DOMAIN p # DOMAIN q THEN ""
   ELSE LET diff == {m \in DOMAIN p : p[m] # q[m]} IN
        IF Cardinality(diff) # 1 THEN ""
        ELSE LET m == CHOOSE x \in diff : TRUE IN
             IF m \in DOMAIN RankOf(ver) /\ p[m] \in DOMAIN RankOf(ver)[m] /\ q[m] \in DOMAIN RankOf(ver)[m]
                /\ RankOf(ver)[m][q[m]] = RankOf(ver)[m][p[m]] + 1 THEN m ELSE ""
\* v4: one step apart when the effective level tuples (in the context ctx) differ in exactly one
\* position and q is one level more severe there.  Returns "E" + position or "".
StepMetric4(ctx, p, q) ==
   LET a == Levels4(p @@ ctx)  b == Levels4(q @@ ctx)
       diff == {x \in 1..15 : a[x] # b[x]} IN
   IF Cardinality(diff) # 1 THEN ""
   ELSE LET x == CHOOSE y \in diff : TRUE IN IF b[x] = a[x] - 1 THEN "L" \o ToString(x) ELSE ""
\* ---- non-interference (C05 / C06 (b)), relation only: two options of a dimension are *equivalent* when they denote the
\* same assignment after replacing every absent / Not Defined metric by the value the standard declares equivalent
NDEquivOf(ver) == IF ver = "2" THEN NDEquiv2 ELSE IF ver = "3" THEN NDEquiv3 ELSE NDEquiv4
ModBaseOf(ver) == IF ver = "3" THEN BaseOf3 ELSE IF ver = "4" THEN BaseOf4 ELSE [x \in {} |-> ""]
\* (a Not Defined modified metric stands for its base metric's value when the option writes that base metric too: C06 (a))
NormVal(ver, g, m) == IF m \in DOMAIN g /\ g[m] # NDOf(ver) THEN g[m]
                      ELSE IF m \in DOMAIN NDEquivOf(ver) THEN NDEquivOf(ver)[m]
                      ELSE IF m \in DOMAIN ModBaseOf(ver) /\ ModBaseOf(ver)[m] \in DOMAIN g THEN g[ModBaseOf(ver)[m]]
                      ELSE NDOf(ver)
\* Mode "equivnd" (C05): only "absent" and "written as Not Defined" are identified
NormValND(ver, g, m) == IF m \in DOMAIN g /\ g[m] # NDOf(ver) THEN g[m] ELSE NDOf(ver)
IsEquiv == Mode \in {"equiv", "equivnd"}
EquivOpts(ver, P, Q) == P # Q /\ \A m \in (DOMAIN P) \cup (DOMAIN Q) :
                           IF Mode = "equivnd" THEN NormValND(ver, P, m) = NormValND(ver, Q, m) ELSE NormVal(ver, P, m) = NormVal(ver, Q, m)
EquivPairsOf(h, dd) == LET n == Len(h.inner[dd].opts) IN
   { <<dd, pq[1], pq[2], {1,2,3}>> : pq \in { x \in (1..n) \X (1..n) : x[1] < x[2] /\ EquivOpts(h.ver, h.inner[dd].opts[x[1]], h.inner[dd].opts[x[2]]) } }
EquivPairs(h) == UNION { EquivPairsOf(h, dd) : dd \in 1..Len(h.inner) }

\* slots that must not decrease when metric m steps up (C14)
Impact3 == {"C","I","A","MC","MI","MA","CR","IR","AR"}
MonoSlots(h, m) ==
   IF h.ver = "4" THEN {1}
   ELSE IF h.ver = "2" THEN (IF m \in SeqToSet(Mand2) THEN {1,2} ELSE IF m \in SeqToSet(Temporal2) THEN {2} ELSE {})
   ELSE LET env == IF h.minor = 0 /\ m \in Impact3 /\ Mode # "specall" THEN {} ELSE {3} IN
        IF m \in SeqToSet(Mand3) THEN {1,2} \cup env
        ELSE IF m \in SeqToSet(Temporal3) THEN {2} \cup env
        ELSE env
\* all <<d, p, q, slots>> to compare for this row
StepM(h, base, d, p, q) == LET P == h.inner[d].opts[p]  Q == h.inner[d].opts[q] IN
                           IF h.ver = "4" THEN StepMetric4(base, P, Q) ELSE StepMetric23(h.ver, P, Q)
StepSlots(h, m) == IF h.ver = "4" THEN {1} ELSE MonoSlots(h, m)
StepPairsOf(h, base, dd) ==
   LET n == Len(h.inner[dd].opts) IN
   { <<dd, pq[1], pq[2], StepSlots(h, StepM(h, base, dd, pq[1], pq[2]))>> :
       pq \in { x \in (1..n) \X (1..n) : x[1] # x[2] /\ StepM(h, base, dd, x[1], x[2]) # ""
                                          /\ StepSlots(h, StepM(h, base, dd, x[1], x[2])) # {} } }
\* context of a dimension: first option of every other inner dimension, over the row's outer part
CtxOf(h, og, dd) == MergeSeq([e \in 1..Len(h.inner) |-> IF e = dd THEN EmptyFn ELSE h.inner[e].opts[1]], 1) @@ og
StepPairs(h, og) == UNION { StepPairsOf(h, CtxOf(h, og, dd), dd) : dd \in 1..Len(h.inner) }
SpecMode == Mode \in {"spec", "specall"}
MonoRow(row, h) ==
   LET og == TLCEval(OuterAsg(h, row.o))  str == TLCEval(Strides(h.inner))  n == Size(h.inner)  rad == TLCEval(Radix(h.inner))
       own == TLCEval(Owner(h))  tab == TLCEval(OptFull(h))  ctx == TLCEval(Full(h.ver, og))
       \* in the design-level modes the compared values are the specification's own scores
       vals == IF SpecMode THEN TLCEval([j \in 0..(n-1) |-> TLCEval(ScoresOfFull(h.ver, h.minor, EntryFull(h, own, tab, ctx, str, j)))]) ELSE <<>>
       pairs == TLCEval(IF IsEquiv THEN EquivPairs(h) ELSE StepPairs(h, og))
       V(j, k) == IF SpecMode THEN vals[j][k] ELSE row.obs[j * h.slots + k]
       \* entries whose digit in dimension pr[1] is pr[2]:  j = hi * (rad*str) + (pr[2]-1) * str + lo
       J(pr, hi, lo) == hi * rad[pr[1]] * str[pr[1]] + (pr[2]-1) * str[pr[1]] + lo
       Lowers(pr, j) == LET j2 == j + (pr[3] - pr[2]) * str[pr[1]] IN
                        \E k \in pr[4] : k <= h.slots /\ V(j,k) >= 0 /\ V(j2,k) >= 0 /\ (IF IsEquiv THEN V(j,k) # V(j2,k) ELSE V(j,k) > V(j2,k))
       \* the same test with everything loop-invariant hoisted (this is the hot loop of the check)
       slots == h.slots
       obs == row.obs
       spec == SpecMode
       PairBad(pr) == LET s == str[pr[1]]  span == rad[pr[1]] * s  off == (pr[2]-1) * s  delta == (pr[3] - pr[2]) * s
                          ks == {k \in pr[4] : k <= slots}  nhi == (n \div span) - 1  nlo == s - 1 IN
                      IF spec THEN \E hi \in 0..nhi : \E lo \in 0..nlo : \E k \in ks :
                                      LET x == vals[hi*span + off + lo][k]  y == vals[hi*span + off + lo + delta][k] IN x >= 0 /\ y >= 0 /\ x > y
                      ELSE IF IsEquiv THEN \E hi \in 0..nhi : \E lo \in 0..nlo : \E k \in ks :
                              LET x == obs[(hi*span + off + lo)*slots + k]  y == obs[(hi*span + off + lo + delta)*slots + k] IN x >= 0 /\ y >= 0 /\ x # y
                      ELSE \E hi \in 0..nhi : \E lo \in 0..nlo : \E k \in ks :
                              LET x == obs[(hi*span + off + lo)*slots + k]  y == obs[(hi*span + off + lo + delta)*slots + k] IN x > y /\ y >= 0
       anyBad == \E pr \in pairs : PairBad(pr)
   IN IF ~Disjoint(h, og) THEN "shape-disjoint" ELSE IF ~anyBad THEN "ok"
      ELSE LET bad == {<<j, pr>> \in (0..(n-1)) \X pairs :
                         ((j \div str[pr[1]]) % rad[pr[1]]) + 1 = pr[2] /\ Lowers(pr, j)}
               b == CHOOSE x \in bad : TRUE
               j2 == b[1] + (b[2][3] - b[2][2]) * str[b[2][1]]
           IN (IF IsEquiv THEN "equiv " ELSE "mono ") \o VectorOf(h, InnerAsg(h, str, b[1]) @@ og) \o " -> " \o VectorOf(h, InnerAsg(h, str, j2) @@ og)
              \o " lowers " \o ToString([k \in 1..h.slots |-> V(b[1],k)]) \o " to "
              \o ToString([k \in 1..h.slots |-> V(j2,k)]) \o " nbad=" \o ToString(Cardinality(bad))
              \o " metrics=" \o ToString({h.inner[x[2][1]].name : x \in bad})
NPairs(row, h) == LET og == OuterAsg(h, row.o) IN
   LET pairs == IF IsEquiv THEN EquivPairs(h) ELSE StepPairs(h, og)  rad == Radix(h.inner)  n == Size(h.inner) IN
   \* number of compared (entry, step, slot) triples in this row
   LET F[S \in SUBSET pairs] == IF S = {} THEN 0 ELSE LET x == CHOOSE y \in S : TRUE IN
                                  (n \div rad[x[1]]) * Cardinality(x[4]) + F[S \ {x}] IN F[pairs]

\* ---- equality (C07), relation only: all objects of a row were put into one Python set / dict by the driver; the number of
\* distinct objects must be the number of distinct *defined parts* the row contains (product over the dimensions, which write
\* disjoint metrics), and the same for the number of distinct cleaned vectors
DefinedPartOf(ver, opt) == [m \in {k \in DOMAIN opt : opt[k] # NDOf(ver)} |-> opt[m]]
RECURSIVE ProdDistinct(_,_)
ProdDistinct(h, dd) == IF dd > Len(h.inner) THEN 1
                       ELSE Cardinality({DefinedPartOf(h.ver, h.inner[dd].opts[p]) : p \in 1..Len(h.inner[dd].opts)}) * ProdDistinct(h, dd+1)
EqSetsRow(row, h) == LET want == ProdDistinct(h, 1) IN
   IF ~Disjoint(h, OuterAsg(h, row.o)) THEN "shape-disjoint"
   ELSE IF row.set_size # want THEN "eqsets set-of-objects has " \o ToString(row.set_size) \o " members, the specification's equality admits " \o ToString(want)
   ELSE IF row.dict_size # want THEN "eqsets dict-of-objects has " \o ToString(row.dict_size) \o " keys, expected " \o ToString(want)
   ELSE IF row.distinct_clean # want THEN "eqsets distinct cleaned vectors " \o ToString(row.distinct_clean) \o ", expected " \o ToString(want)
   ELSE "ok"

\* coverage report per row: macrovectors touched (v4)
MacroStr(mv) == ToString(mv[1]) \o ToString(mv[2]) \o ToString(mv[3]) \o ToString(mv[4]) \o ToString(mv[5]) \o ToString(mv[6])
RowMacros(row, h) == LET og == TLCEval(OuterAsg(h, row.o))  str == TLCEval(Strides(h.inner))
                         own == TLCEval(Owner(h))  tab == TLCEval(OptFull(h))  ctx == TLCEval(Full(h.ver, og)) IN
                     {Macro(Levels4F(EntryFull(h, own, tab, ctx, str, j))) : j \in 0..(Size(h.inner)-1)}

Verdict(row) ==
   LET h == Tables[row.t] IN
   IF Len(row.obs) # Size(h.inner) * h.slots /\ ~SpecMode THEN "shape"
   ELSE IF ~SamplesOK(row, h) THEN "samples"
   ELSE IF Mode = "oracle" THEN OracleRow(row, h)
   ELSE IF Mode = "eqsets" THEN EqSetsRow(row, h)
   ELSE MonoRow(row, h)
Inv == ph = 0 \/ LET row == Rows[i]  v == Verdict(row) IN
       /\ (v = "ok" \/ PrintT("FAIL " \o ToString(i) \o " " \o v))
       /\ (Mode = "oracle" /\ Tables[row.t].ver = "4" /\ "cov" \in DOMAIN Tables[row.t]
             => PrintT("COV " \o ToString(i) \o " " \o ToString({MacroStr(x) : x \in RowMacros(row, Tables[row.t])})))
       /\ (Mode \notin {"oracle", "eqsets"} => PrintT("CMP " \o ToString(i) \o " " \o ToString(NPairs(row, Tables[row.t]))))
=============================================================================
