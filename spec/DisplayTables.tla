------------------------------ MODULE DisplayTables ------------------------------
(* What the interactive builder shows: metric names, and per metric the values in display order with their value
   names.  This is interface data of the library (its published wording at the pinned version, frozen here on
   2026-09-26), not taken from the standards; it is used only by InteractiveText.tla to predict the exact text of a
   session (a conformance check beyond the listed properties).  v4 reflects the fixes F2 (metric order), F7
   (Irrecoverable).                                                                                              *)
EXTENDS Sequences

AskOrder2 == <<"AV", "AC", "Au", "C", "I", "A", "E", "RL", "RC", "CDP", "TD", "CR", "IR", "AR">>
DispName2 == [AV |-> "Access Vector", AC |-> "Access Complexity", Au |-> "Authentication", C |-> "Confidentiality Impact", I |-> "Integrity Impact", A |-> "Availability Impact", E |-> "Exploitability", RL |-> "Remediation Level", RC |-> "Report Confidence", CDP |-> "Collateral Damage Potential", TD |-> "Target Distribution", CR |-> "Confidentiality Requirement", IR |-> "Integrity Requirement", AR |-> "Availability Requirement"]
\* per metric: sequence of <<value, value name>> in display order
DispVals2 == [
   AV |-> <<<<"L", "Local">>, <<"A", "Adjacent Network">>, <<"N", "Network">>>>,
   AC |-> <<<<"H", "High">>, <<"M", "Medium">>, <<"L", "Low">>>>,
   Au |-> <<<<"M", "Multiple">>, <<"S", "Single">>, <<"N", "None">>>>,
   C |-> <<<<"N", "None">>, <<"P", "Partial">>, <<"C", "Complete">>>>,
   I |-> <<<<"N", "None">>, <<"P", "Partial">>, <<"C", "Complete">>>>,
   A |-> <<<<"N", "None">>, <<"P", "Partial">>, <<"C", "Complete">>>>,
   E |-> <<<<"U", "Unproven">>, <<"POC", "Proof-of-Concept">>, <<"F", "Functional">>, <<"H", "High">>, <<"ND", "Not Defined">>>>,
   RL |-> <<<<"OF", "Official Fix">>, <<"TF", "Temporary Fix">>, <<"W", "Workaround">>, <<"U", "Unavailable">>, <<"ND", "Not Defined">>>>,
   RC |-> <<<<"UC", "Unconfirmed">>, <<"UR", "Uncorroborated">>, <<"C", "Confirmed">>, <<"ND", "Not Defined">>>>,
   CDP |-> <<<<"N", "None">>, <<"L", "Low">>, <<"LM", "Low-Medium">>, <<"MH", "Medium-High">>, <<"H", "High">>, <<"ND", "Not Defined">>>>,
   TD |-> <<<<"N", "None">>, <<"L", "Low">>, <<"M", "Medium">>, <<"H", "High">>, <<"ND", "Not Defined">>>>,
   CR |-> <<<<"L", "Low">>, <<"M", "Medium">>, <<"H", "High">>, <<"ND", "Not Defined">>>>,
   IR |-> <<<<"L", "Low">>, <<"M", "Medium">>, <<"H", "High">>, <<"ND", "Not Defined">>>>,
   AR |-> <<<<"L", "Low">>, <<"M", "Medium">>, <<"H", "High">>, <<"ND", "Not Defined">>>> ]

AskOrder3 == <<"AV", "AC", "PR", "UI", "S", "C", "I", "A", "E", "RL", "RC", "CR", "IR", "AR", "MAV", "MAC", "MPR", "MUI", "MS", "MC", "MI", "MA">>
DispName3 == [AV |-> "Attack Vector", AC |-> "Attack Complexity", PR |-> "Privileges Required", UI |-> "User Interaction", S |-> "Scope", C |-> "Confidentiality", I |-> "Integrity", A |-> "Availability", E |-> "Exploit Code Maturity", RL |-> "Remediation Level", RC |-> "Report Confidence", CR |-> "Confidentiality Req.", IR |-> "Integrity Req.", AR |-> "Availability Req.", MAV |-> "Modified Attack Vector", MAC |-> "Modified Attack Complexity", MPR |-> "Modified Privileges Required", MUI |-> "Modified User Interaction", MS |-> "Modified Scope", MC |-> "Modified Confidentiality", MI |-> "Modified Integrity", MA |-> "Modified Availability"]
\* per metric: sequence of <<value, value name>> in display order
DispVals3 == [
   AV |-> <<<<"N", "Network">>, <<"A", "Adjacent">>, <<"L", "Local">>, <<"P", "Physical">>>>,
   AC |-> <<<<"L", "Low">>, <<"H", "High">>>>,
   PR |-> <<<<"N", "None">>, <<"L", "Low">>, <<"H", "High">>>>,
   UI |-> <<<<"N", "None">>, <<"R", "Required">>>>,
   S |-> <<<<"C", "Changed">>, <<"U", "Unchanged">>>>,
   C |-> <<<<"H", "High">>, <<"L", "Low">>, <<"N", "None">>>>,
   I |-> <<<<"H", "High">>, <<"L", "Low">>, <<"N", "None">>>>,
   A |-> <<<<"H", "High">>, <<"L", "Low">>, <<"N", "None">>>>,
   E |-> <<<<"X", "Not Defined">>, <<"H", "High">>, <<"F", "Functional">>, <<"P", "Proof-of-Concept">>, <<"U", "Unproven">>>>,
   RL |-> <<<<"X", "Not Defined">>, <<"U", "Unavailable">>, <<"W", "Workaround">>, <<"T", "Temporary Fix">>, <<"O", "Official Fix">>>>,
   RC |-> <<<<"X", "Not Defined">>, <<"C", "Confirmed">>, <<"R", "Reasonable">>, <<"U", "Unknown">>>>,
   CR |-> <<<<"X", "Not Defined">>, <<"H", "High">>, <<"M", "Medium">>, <<"L", "Low">>>>,
   IR |-> <<<<"X", "Not Defined">>, <<"H", "High">>, <<"M", "Medium">>, <<"L", "Low">>>>,
   AR |-> <<<<"X", "Not Defined">>, <<"H", "High">>, <<"M", "Medium">>, <<"L", "Low">>>>,
   MAV |-> <<<<"X", "Not Defined">>, <<"N", "Network">>, <<"A", "Adjacent">>, <<"L", "Local">>, <<"P", "Physical">>>>,
   MAC |-> <<<<"X", "Not Defined">>, <<"L", "Low">>, <<"H", "High">>>>,
   MPR |-> <<<<"X", "Not Defined">>, <<"N", "None">>, <<"L", "Low">>, <<"H", "High">>>>,
   MUI |-> <<<<"X", "Not Defined">>, <<"N", "None">>, <<"R", "Required">>>>,
   MS |-> <<<<"X", "Not Defined">>, <<"C", "Changed">>, <<"U", "Unchanged">>>>,
   MC |-> <<<<"X", "Not Defined">>, <<"H", "High">>, <<"L", "Low">>, <<"N", "None">>>>,
   MI |-> <<<<"X", "Not Defined">>, <<"H", "High">>, <<"L", "Low">>, <<"N", "None">>>>,
   MA |-> <<<<"X", "Not Defined">>, <<"H", "High">>, <<"L", "Low">>, <<"N", "None">>>> ]

AskOrder4 == <<"AV", "AC", "AT", "PR", "UI", "VC", "VI", "VA", "SC", "SI", "SA", "E", "CR", "IR", "AR", "MAV", "MAC", "MAT", "MPR", "MUI", "MVC", "MVI", "MVA", "MSC", "MSI", "MSA", "S", "AU", "R", "V", "RE", "U">>
DispName4 == [AV |-> "Attack Vector", AC |-> "Attack Complexity", AT |-> "Attack Requirement", PR |-> "Privileges Required", UI |-> "User Interaction", VC |-> "Vulnerable System Impact Confidentiality", VI |-> "Vulnerable System Impact Integrity", VA |-> "Vulnerable System Impact Availability", SC |-> "Subsequent System Impact Confidentiality", SI |-> "Subsequent System Impact Integrity", SA |-> "Subsequent System Impact Availability", E |-> "Exploit Maturity", CR |-> "Confidentiality Req.", IR |-> "Integrity Req.", AR |-> "Availability Req.", MAV |-> "Modified Attack Vector", MAC |-> "Modified Attack Complexity", MAT |-> "Modified Attack Requirement", MPR |-> "Modified Privileges Required", MUI |-> "Modified User Interaction", MVC |-> "Modified Vulnerable System Impact Confidentiality", MVI |-> "Modified Vulnerable System Impact Integrity", MVA |-> "Modified Vulnerable System Impact Availability", MSC |-> "Modified Subsequent System Impact Confidentiality", MSI |-> "Modified Subsequent System Impact Integrity", MSA |-> "Modified Subsequent System Impact Availability", S |-> "Safety", AU |-> "Automatable", R |-> "Recovery", V |-> "Value Density", RE |-> "Vulnerability Response Effort", U |-> "Provider Urgency"]
\* per metric: sequence of <<value, value name>> in display order
DispVals4 == [
   AV |-> <<<<"N", "Network">>, <<"A", "Adjacent">>, <<"L", "Local">>, <<"P", "Physical">>>>,
   AC |-> <<<<"L", "Low">>, <<"H", "High">>>>,
   AT |-> <<<<"N", "None">>, <<"P", "Present">>>>,
   PR |-> <<<<"N", "None">>, <<"L", "Low">>, <<"H", "High">>>>,
   UI |-> <<<<"N", "None">>, <<"P", "Passive">>, <<"A", "Active">>>>,
   VC |-> <<<<"H", "High">>, <<"L", "Low">>, <<"N", "None">>>>,
   VI |-> <<<<"H", "High">>, <<"L", "Low">>, <<"N", "None">>>>,
   VA |-> <<<<"H", "High">>, <<"L", "Low">>, <<"N", "None">>>>,
   SC |-> <<<<"H", "High">>, <<"L", "Low">>, <<"N", "None">>>>,
   SI |-> <<<<"H", "High">>, <<"L", "Low">>, <<"N", "None">>>>,
   SA |-> <<<<"H", "High">>, <<"L", "Low">>, <<"N", "None">>>>,
   S |-> <<<<"X", "Not Defined">>, <<"N", "Negligible">>, <<"P", "Present">>>>,
   AU |-> <<<<"X", "Not Defined">>, <<"N", "No">>, <<"Y", "Yes">>>>,
   R |-> <<<<"X", "Not Defined">>, <<"A", "Automatic">>, <<"U", "User">>, <<"I", "Irrecoverable">>>>,
   V |-> <<<<"X", "Not Defined">>, <<"D", "Diffuse">>, <<"C", "Concentrated">>>>,
   RE |-> <<<<"X", "Not Defined">>, <<"L", "Low">>, <<"M", "Moderate">>, <<"H", "High">>>>,
   U |-> <<<<"X", "Not Defined">>, <<"Clear", "Clear">>, <<"Green", "Green">>, <<"Amber", "Amber">>, <<"Red", "Red">>>>,
   MAV |-> <<<<"X", "Not Defined">>, <<"N", "Network">>, <<"A", "Adjacent">>, <<"L", "Local">>, <<"P", "Physical">>>>,
   MAC |-> <<<<"X", "Not Defined">>, <<"L", "Low">>, <<"H", "High">>>>,
   MAT |-> <<<<"X", "Not Defined">>, <<"N", "None">>, <<"P", "Present">>>>,
   MPR |-> <<<<"X", "Not Defined">>, <<"N", "None">>, <<"L", "Low">>, <<"H", "High">>>>,
   MUI |-> <<<<"X", "Not Defined">>, <<"N", "None">>, <<"P", "Passive">>, <<"A", "Active">>>>,
   MVC |-> <<<<"X", "Not Defined">>, <<"H", "High">>, <<"L", "Low">>, <<"N", "None">>>>,
   MVI |-> <<<<"X", "Not Defined">>, <<"H", "High">>, <<"L", "Low">>, <<"N", "None">>>>,
   MVA |-> <<<<"X", "Not Defined">>, <<"H", "High">>, <<"L", "Low">>, <<"N", "None">>>>,
   MSC |-> <<<<"X", "Not Defined">>, <<"H", "High">>, <<"L", "Low">>, <<"N", "Negligible">>>>,
   MSI |-> <<<<"X", "Not Defined">>, <<"S", "Safety">>, <<"H", "High">>, <<"L", "Low">>, <<"N", "Negligible">>>>,
   MSA |-> <<<<"X", "Not Defined">>, <<"S", "Safety">>, <<"H", "High">>, <<"L", "Low">>, <<"N", "Negligible">>>>,
   CR |-> <<<<"X", "Not Defined">>, <<"H", "High">>, <<"M", "Medium">>, <<"L", "Low">>>>,
   IR |-> <<<<"X", "Not Defined">>, <<"H", "High">>, <<"M", "Medium">>, <<"L", "Low">>>>,
   AR |-> <<<<"X", "Not Defined">>, <<"H", "High">>, <<"M", "Medium">>, <<"L", "Low">>>>,
   E |-> <<<<"X", "Not Defined">>, <<"A", "Attacked">>, <<"P", "POC">>, <<"U", "Unreported">>>> ]

=============================================================================
