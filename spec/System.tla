------------------------------ MODULE System ------------------------------
(* Process-level model of the library (C18, C19): a heap of constructed objects, in-flight
   constructions that step through the constructor pipeline (one action per pipeline method, as
   in the code: parse -> mandatory -> [scope] -> fill -> base -> temporal -> environmental),
   accessor calls on finished objects, other API calls, and process-global state (constant
   tables, decimal context, sys.path, warning filters, stdout/stderr) that no library
   transition may write.  The pure functions are abstract here (uninterpreted tuples), which is
   all C18/C19 need: results must be functions of the input / of the object alone.
   Bug switches model the classes of defect the two properties are about, so that TLC can show
   each invariant is able to fail (selftest) and yield the histories / schedules the replay
   harness must be able to drive.                                                         *)
EXTENDS Integers, Sequences, FiniteSets, TLC
CONSTANTS Threads, Inputs, MaxObjs, MaxCalls,
          BugSharedScratch,   \* constructions use one shared (class-level) scratch map
          BugCache,           \* a module-level result cache keyed by part of the input only
          BugAccessorMutates, \* an accessor pops an entry of the object's metric map
          BugJsonAlias,       \* as_json returns an internal dictionary by reference
          BugEntryPointWritesTables, \* an entry point (interactive builder / calculator main) edits a shared constant table
          BugCopyDiffers,     \* a copy of an object is rebuilt from something other than the object's input
          BugMemoPublishedEarly,  \* an accessor keeps a per-object memo and publishes it before it is complete
          BugCacheIgnoresContext  \* a module-level cache keeps what was computed under a caller's low-precision decimal context
Accessors == {"scores","severities","clean","clean_np","rh","tv","ev","json_uf","json_um","json_sf","json_sm","eq_self","hash","mutate_json","internals"}
Pipeline == <<"parse","mandatory","fill","base","temporal","env">>
\* abstract pure functions of an input i = <<kind, prefix, body>> ------------------------------
Malformed(i) == i[1] = "bad"
Parsed(i)    == <<"metrics", i[2], i[3]>>
Filled(g)    == <<"filled", g>>
Scored(f, n) == <<"score", n, f>>
CacheKey(i)  == IF BugCache THEN i[3] ELSE i          \* the buggy key forgets the version prefix
Result(acc, obj) == <<acc, obj.filled, obj.scores>>  \* what an accessor returns: a function of the object

VARIABLES heap,      \* sequence of finished objects [in, filled, scores, json (internal dict state)]
          thr,       \* per thread: [pc (0 = idle, k = next pipeline step), in, scratch, scores]
          shared,    \* shared scratch (used by the buggy variant only)
          cache,     \* module-level cache (used by the buggy variant only)
          globals,   \* digest of module tables, decimal context, sys.path, warning filters
          out,       \* bytes written to stdout / stderr by library calls
          last,      \* observation of the last completed public call
          ncalls,
          memo,      \* per object: <<"none">>, <<"full">> or <<"partial", filler>> (used by the buggy variant only: the real objects keep no memo)
          inacc,     \* per thread: the accessor call it is in the middle of, <<object, accessor>> or <<>>
          poisoned   \* inputs whose cached result was computed under a low-precision context (buggy variant only)
xvars == <<memo, inacc, poisoned>>
vars == <<heap, thr, shared, cache, globals, out, last, ncalls, memo, inacc, poisoned>>
Idle == [pc |-> 0, in |-> <<>>, scratch |-> <<>>, scores |-> <<>>]
XInit == memo = [o \in 1..MaxObjs |-> <<"none">>] /\ inacc = [t \in Threads |-> <<>>] /\ poisoned = {}
Init == /\ heap = <<>> /\ thr = [t \in Threads |-> Idle] /\ shared = <<>> /\ cache = <<>>
        /\ globals = "G0" /\ out = 0 /\ last = <<>> /\ ncalls = 0 /\ XInit
Scratch(t) == IF BugSharedScratch THEN shared ELSE thr[t].scratch
WithScratch(t, v, f) == IF BugSharedScratch THEN shared' = v /\ thr' = [thr EXCEPT ![t] = f]
                        ELSE thr' = [thr EXCEPT ![t] = [f EXCEPT !.scratch = v]] /\ UNCHANGED shared
\* ---- construction, one action per pipeline method ---------------------------------------------
Begin(t, i) == /\ thr[t].pc = 0 /\ inacc[t] = <<>> /\ Len(heap) + Cardinality({u \in Threads : thr[u].pc # 0}) < MaxObjs /\ ncalls < MaxCalls
               /\ thr' = [thr EXCEPT ![t] = [pc |-> 1, in |-> i, scratch |-> <<>>, scores |-> <<>>]]
               /\ ncalls' = ncalls + 1 /\ UNCHANGED <<heap, shared, cache, globals, out, last>>
StepParse(t) == /\ thr[t].pc = 1
                /\ IF Malformed(thr[t].in)
                   THEN thr' = [thr EXCEPT ![t] = Idle] /\ last' = <<"raise", t, thr[t].in>> /\ UNCHANGED shared
                   ELSE WithScratch(t, Parsed(thr[t].in), [thr[t] EXCEPT !.pc = 2]) /\ UNCHANGED last
                /\ UNCHANGED <<heap, cache, globals, out, ncalls>>
StepMandatory(t) == thr[t].pc = 2 /\ thr' = [thr EXCEPT ![t].pc = 3] /\ UNCHANGED <<heap, shared, cache, globals, out, last, ncalls>>
StepFill(t) == thr[t].pc = 3 /\ WithScratch(t, Filled(Scratch(t)), [thr[t] EXCEPT !.pc = 4])
               /\ UNCHANGED <<heap, cache, globals, out, last, ncalls>>
\* base, temporal, environmental score: each reads the (thread-local) metric map and the global tables
StepScore(t, k) == /\ thr[t].pc = k /\ k \in 4..6
                   /\ LET key == <<CacheKey(thr[t].in), k>>
                          hit == {j \in 1..Len(cache) : cache[j][1] = key}
                          sc == IF thr[t].in \in poisoned THEN <<"imprecise", k>> ELSE IF BugCache /\ hit # {} THEN cache[CHOOSE j \in hit : TRUE][2] ELSE Scored(Scratch(t), k)
                      IN /\ cache' = IF BugCache /\ hit = {} THEN Append(cache, <<key, sc>>) ELSE cache
                         /\ IF k < 6 THEN thr' = [thr EXCEPT ![t].pc = k + 1, ![t].scores = Append(thr[t].scores, sc)] /\ UNCHANGED <<heap, last>>
                            ELSE /\ heap' = Append(heap, [in |-> thr[t].in, filled |-> Scratch(t), scores |-> Append(thr[t].scores, sc), json |-> "fresh"])
                                 /\ last' = <<"object", t, thr[t].in, Scratch(t), Append(thr[t].scores, sc)>>
                                 /\ thr' = [thr EXCEPT ![t] = Idle]
                   /\ UNCHANGED <<shared, globals, out, ncalls>>
\* ---- accessor calls on a finished object --------------------------------------------------------
Call(o, acc) == /\ o \in 1..Len(heap) /\ acc \in Accessors /\ ncalls < MaxCalls
                /\ last' = <<"call", o, acc, IF acc \in {"json_uf","json_um","json_sf","json_sm"} /\ heap[o].json = "clobbered"
                                              THEN <<"clobbered">> ELSE Result(acc, heap[o])>>
                /\ heap' = IF BugAccessorMutates /\ acc = "scores" THEN [heap EXCEPT ![o].filled = <<"popped">>]
                           ELSE IF BugJsonAlias /\ acc = "mutate_json" THEN [heap EXCEPT ![o].json = "clobbered"]
                           ELSE heap
                /\ ncalls' = ncalls + 1 /\ UNCHANGED <<thr, shared, cache, globals, out>>
\* ---- the two entry points (interactive builder, calculator main) are calls of a history too: they talk to the terminal (their
\* own output is not `out`, which stands for output of library calls outside them) and build objects of their own, but leave
\* the heap and the process globals alone
EntryPoints == {"ask", "cli"}
EntryPoint(kind) == /\ kind \in EntryPoints /\ ncalls < MaxCalls
                    /\ last' = <<"entry", kind>>
                    /\ globals' = IF BugEntryPointWritesTables THEN "G1" ELSE globals
                    /\ ncalls' = ncalls + 1 /\ UNCHANGED <<heap, thr, shared, cache, out>>
\* ---- a copy (copy.copy, copy.deepcopy, a pickle round trip) is a new object that is the same function of the same input;
\* the original is untouched
Copy(o) == /\ o \in 1..Len(heap) /\ Len(heap) < MaxObjs /\ ncalls < MaxCalls
           /\ heap' = Append(heap, IF BugCopyDiffers THEN [heap[o] EXCEPT !.filled = <<"rebuilt">>] ELSE heap[o])
           /\ last' = <<"copy", o>> /\ ncalls' = ncalls + 1 /\ UNCHANGED <<thr, shared, cache, globals, out>>
\* ---- an accessor call by a thread, in two steps: another thread can get in between (two users of one object), and an exception
\* from outside (Ctrl-C, a timeout) can cut it short.  The real objects keep no memo; the buggy variant publishes one early.
CallBegin(t, o, acc) == /\ thr[t].pc = 0 /\ inacc[t] = <<>> /\ o \in 1..Len(heap) /\ acc \in Accessors /\ ncalls < MaxCalls
                        /\ inacc' = [inacc EXCEPT ![t] = <<o, acc>>]
                        /\ memo' = IF BugMemoPublishedEarly /\ memo[o] = <<"none">> THEN [memo EXCEPT ![o] = <<"partial", t>>] ELSE memo
                        /\ ncalls' = ncalls + 1 /\ UNCHANGED <<heap, thr, shared, cache, globals, out, last, poisoned>>
CallEnd(t) == /\ inacc[t] # <<>>
              /\ LET o == inacc[t][1]  acc == inacc[t][2]
                     mine == memo[o] = <<"partial", t>>
                     torn == BugMemoPublishedEarly /\ memo[o] \notin {<<"none">>, <<"full">>} /\ ~mine
                 IN /\ last' = <<"call", o, acc, IF torn THEN <<"torn">> ELSE Result(acc, heap[o])>>
                    /\ memo' = IF mine THEN [memo EXCEPT ![o] = <<"full">>] ELSE memo
              /\ inacc' = [inacc EXCEPT ![t] = <<>>]
              /\ UNCHANGED <<heap, thr, shared, cache, globals, out, ncalls, poisoned>>
\* ---- a call (construction or accessor) broken off by an exception that is not the library's: no result, nothing left behind
Abort(t) == /\ (inacc[t] # <<>> \/ thr[t].pc # 0)
            /\ inacc' = [inacc EXCEPT ![t] = <<>>]
            /\ thr' = [thr EXCEPT ![t] = Idle]
            /\ memo' = [o \in 1..MaxObjs |-> IF memo[o] = <<"partial", t>> THEN <<"partial", "nobody">> ELSE memo[o]]
            /\ last' = <<"aborted", t>>
            /\ UNCHANGED <<heap, shared, cache, globals, out, ncalls, poisoned>>
\* ---- a complete construction by a caller that works under a decimal context of its own (a few digits): what it gets is its own
\* business (no object enters the heap of judged objects), but the call is part of the history of the process
LowPrecConstruct(i) == /\ ncalls < MaxCalls /\ ~Malformed(i)
                       /\ poisoned' = IF BugCacheIgnoresContext THEN poisoned \cup {i} ELSE poisoned
                       /\ last' = <<"lowprec", i>> /\ ncalls' = ncalls + 1
                       /\ UNCHANGED <<heap, thr, shared, cache, globals, out, memo, inacc>>
OldNext == \/ \E t \in Threads, i \in Inputs : Begin(t, i)
           \/ \E kind \in EntryPoints : EntryPoint(kind)
           \/ \E o \in 1..MaxObjs : Copy(o)
           \/ \E t \in Threads : StepParse(t) \/ StepMandatory(t) \/ StepFill(t) \/ \E k \in 4..6 : StepScore(t, k)
           \/ \E o \in 1..MaxObjs, acc \in Accessors : Call(o, acc)
NewNext == \/ \E t \in Threads, o \in 1..MaxObjs, acc \in Accessors : CallBegin(t, o, acc)
           \/ \E t \in Threads : CallEnd(t) \/ Abort(t)
           \/ \E i \in Inputs : LowPrecConstruct(i)
Next == (OldNext /\ UNCHANGED xvars) \/ NewNext
Spec == Init /\ [][Next]_vars
\* ---- properties -----------------------------------------------------------------------------------
RefFilled(i) == Filled(Parsed(i))
RefScores(i) == <<Scored(RefFilled(i), 4), Scored(RefFilled(i), 5), Scored(RefFilled(i), 6)>>
Ref(i) == [in |-> i, filled |-> RefFilled(i), scores |-> RefScores(i), json |-> "fresh"]      \* sequential meaning
ObjectsAreFunctionsOfInput == \A o \in 1..Len(heap) : heap[o] = Ref(heap[o].in)                \* C18 + C19
GlobalsUntouched == globals = "G0" /\ out = 0                                                  \* C19
ResultsDependOnInputOnly ==                                                                    \* C19
   /\ (last # <<>> /\ last[1] = "object") => (last[4] = RefFilled(last[3]) /\ last[5] = RefScores(last[3]))
   /\ (last # <<>> /\ last[1] = "raise") => Malformed(last[3])
AccessorResultsAreFunctionsOfTheObject ==                                                      \* C18
   (last # <<>> /\ last[1] = "call") => last[4] = Result(last[3], Ref(heap[last[2]].in))
AccessorsArePure == [][\A o \in 1..Len(heap) : heap'[o] = heap[o]]_vars                       \* C18
=============================================================================
