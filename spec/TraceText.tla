------------------------------ MODULE TraceText ------------------------------
(* Trace validation of parse_cvss_from_text events against the extraction contract. *)
EXTENDS TextParser, TraceData
T == TraceData
VARIABLES i, ph
Init == i \in 1..Len(T) /\ ph = 0
Next == ph = 0 /\ ph' = 1 /\ i' = i
Spec == Init /\ [][Next]_<<i, ph>>
Inv == ph = 0 \/ LET v == TextVerdict(T[i]) IN v = "ok" \/ PrintT("FAIL " \o ToString(i) \o " " \o v)
=============================================================================
