------------------------------ MODULE TraceJson ------------------------------
(* C10 / C11 / schema-transcription cross-check, over construct events carrying the JSON
   output of all four (sort, minimal) combinations after a JSON round trip.
   Prop = "C10":  every document validates against the official schema of its version
   Prop = "C11":  the document is faithful to the object; sort only reorders, minimal only omits
   Prop = "XS":   events are [sv, doc, lib] - arbitrary (mutated) documents with the verdict of the
                  jsonschema library on the pinned official schema file; the TLA+ transcription must
                  agree (a disagreement is a machinery failure, not a violation)               *)
EXTENDS JsonRules, Json, IOUtils, TraceData
CONSTANT Prop
T == TraceData
VARIABLES i, ph
Init == i \in 1..Len(T) /\ ph = 0
Next == ph = 0 /\ ph' = 1 /\ i' = i
Spec == Init /\ [][Next]_<<i, ph>>
\* ---- C10 -------------------------------------------------------------------------------------
C10(e) == IF e.out.cls # "ok" THEN "ok"
          ELSE LET sv == SchemaVersion(e.ver, e.out.minor)
                   fails == UNION {SchemaFails(sv, e.out.json[Variants[k]]) : k \in 1..4}
                   \* the echo of an input that is itself not in the official order is reported as such
                   fails2 == {IF f = "properties/vectorString/pattern" /\ HasKey(e.out.json.uf,"vectorString") /\ Get(e.out.json.uf,"vectorString")[3] = e.s /\ Classify(e.ver, e.s) = "ok"
                              THEN "properties/vectorString/pattern:echo-of-accepted-input-not-in-official-form" ELSE f : f \in fails}
               IN IF fails = {} THEN "ok" ELSE "schema " \o sv \o " " \o ToString(fails2)

\* ---- C11 (the rules are in JsonRules.tla) -----------------------------------------------------
C11(e) ==
   IF e.out.cls # "ok" THEN "ok"
   ELSE LET p == Parse(e.ver, e.s) IN
        IF p.cls # "ok" THEN "ok"
        ELSE LET J == e.out.json
                 f == [k \in 1..4 |-> Faithful(e, J[Variants[k]], p.given)]
             IN IF \E k \in 1..4 : f[k] # "ok" THEN (LET k == CHOOSE x \in 1..4 : f[x] # "ok" IN f[k] \o ":" \o Variants[k])
                ELSE IF SortedOk(J.uf, J.sf) # "ok" THEN SortedOk(J.uf, J.sf) \o ":full"
                ELSE IF SortedOk(J.um, J.sm) # "ok" THEN SortedOk(J.um, J.sm) \o ":minimal"
                ELSE IF MinimalOk(e.ver, p.given, J.uf, J.um) # "ok" THEN MinimalOk(e.ver, p.given, J.uf, J.um)
                ELSE "ok"

\* ---- transcription cross-check ---------------------------------------------------------------
XS(e) == LET v == SchemaVerdict(e.sv, e.doc) IN
         IF (v = "ok") = e.lib THEN "ok" ELSE "transcription-disagrees-with-jsonschema:" \o v

Verdict(e) == CASE Prop = "C10" -> C10(e) [] Prop = "C11" -> C11(e) [] Prop = "XS" -> XS(e)
Inv == ph = 0 \/ LET v == Verdict(T[i]) IN v = "ok" \/ PrintT("FAIL " \o ToString(i) \o " " \o v)
=============================================================================
