SPECIFICATION GSpec
INVARIANT Emit
INVARIANT ObjectsAreFunctionsOfInput
INVARIANT GlobalsUntouched
INVARIANT ResultsDependOnInputOnly
INVARIANT AccessorResultsAreFunctionsOfTheObject
CONSTANTS
  Threads = {t1}
  Inputs = {}
  MaxObjs = 1
  MaxCalls = 3
  Mode = "accessors"
  BugSharedScratch = FALSE
  BugCache = FALSE
  BugAccessorMutates = FALSE
  BugJsonAlias = FALSE
  BugEntryPointWritesTables = FALSE
  BugCopyDiffers = FALSE
CHECK_DEADLOCK FALSE
