------------------------------ MODULE JsonRules ------------------------------
(* What C11 demands of the documents as_json() returns, as predicates over a decoded document (a sequence of
   <<key, type, text>>): faithfulness to the object, "sort only reorders", "minimal only omits whole undefined groups".
   Used by TraceJson.tla (recorded documents) and by JsonDoc.tla / MC_Json (the reference document of the specification). *)
EXTENDS JsonSchema, FiniteSets, TLC
Variants == <<"uf","um","sf","sm">>      \* u/s = unsorted/sorted, f/m = full/minimal

\* ---- C11 -------------------------------------------------------------------------------------
KeyOfMetric(ver, m) == IF ver = "2" THEN {JsonKey2[m]} ELSE IF ver = "3" THEN {JsonKey3[m]} ELSE {JsonKey4[m], AltKey4[m]}
NameTab(ver) == IF ver = "2" THEN JsonName2 ELSE IF ver = "3" THEN JsonName3 ELSE JsonName4
Accepted(ver, m, v) == {NameTab(ver)[m][v]} \cup (IF ver = "4" /\ m \in DOMAIN AltName4 /\ v \in DOMAIN AltName4[m] THEN {AltName4[m][v]} ELSE {})
\* the value a metric field must name: the stated value; for a Not Defined modified metric its base
\* metric's value; Not Defined otherwise
EffJson(ver, g, m) == IF m \in DOMAIN g /\ g[m] # NDOf(ver) THEN g[m]
                      ELSE IF ver = "3" /\ m \in DOMAIN BaseOf3 THEN g[BaseOf3[m]]
                      ELSE IF ver = "4" /\ m \in DOMAIN BaseOf4 THEN g[BaseOf4[m]]
                      ELSE NDOf(ver)
ScoreKeys == <<"baseScore","temporalScore","environmentalScore">>
SevKeys == <<"baseSeverity","temporalSeverity","environmentalSeverity">>
GroupMetrics(ver) == IF ver = "2" THEN <<Temporal2, Environmental2>> ELSE IF ver = "3" THEN <<Temporal3, Environmental3>> ELSE <<>>
AllMetricKeys(ver) == UNION {KeyOfMetric(ver, m) : m \in MetricsOf(ver)}
KnownKeys(ver) == AllMetricKeys(ver) \cup {"version","vectorString"} \cup SeqToSet(ScoreKeys) \cup SeqToSet(SevKeys)
                  \cup (IF ver = "4" THEN {"threatScore","threatSeverity"} ELSE {})
\* lexicographic order of ASCII keys (Python compares code points: digits < upper case < lower case)
Alpha == "0123456789ABCDEFGHIJKLMNOPQRSTUVWXYZabcdefghijklmnopqrstuvwxyz"
Code(c) == IF IndexFrom(Alpha, c, 1) = 0 THEN 0 ELSE IndexFrom(Alpha, c, 1)
\* (find the first differing position by equality, then compare that one character pair)
RECURSIVE FirstDiff(_,_,_)
FirstDiff(a, b, k) == IF k > Len(a) \/ k > Len(b) THEN k ELSE IF Ch(a,k) # Ch(b,k) THEN k ELSE FirstDiff(a, b, k+1)
StrLess(a, b) == LET k == FirstDiff(a, b, 1) IN
                 IF k > Len(a) THEN k <= Len(b) ELSE IF k > Len(b) THEN FALSE ELSE Code(Ch(a,k)) < Code(Ch(b,k))
AsSet(doc) == {doc[k] : k \in 1..Len(doc)}
\* key -> <<key, type, text>> of a document, evaluated once (lookups by Get are linear in the document)
DocMap(doc) == TLCEval([k \in Keys(doc) |-> doc[CHOOSE x \in 1..Len(doc) : doc[x][1] = k]])
Faithful(e, doc, g) ==
   LET ver == e.ver
       mets == MetricsOf(ver)
       dm == DocMap(doc)
       ks == DOMAIN dm
       dup == Cardinality(ks) # Len(doc)
       badMetric == {m \in mets : \E key \in KeyOfMetric(ver, m) : key \in ks /\
                        ~(dm[key][2] = "str" /\ dm[key][3] \in Accepted(ver, m, EffJson(ver, g, m)))}
       versionOk == dm["version"][2] = "str" /\
                    dm["version"][3] \in (IF ver = "2" THEN {"2.0"} ELSE IF ver = "4" THEN {"4","4.0"}
                                          ELSE {IF e.out.minor = 0 THEN "3.0" ELSE "3.1"})
       scoreBad == \E k \in 1..Len(e.out.scores) : ScoreKeys[k] \in ks /\ e.out.scores[k] >= 0 /\
                      ~(IsNumber(dm[ScoreKeys[k]]) /\ Tenths(dm[ScoreKeys[k]][3]) = e.out.scores[k])
       sevBad == \E k \in 1..Len(e.out.sev) : SevKeys[k] \in ks /\ e.out.scores[k] >= 0 /\
                      ~(dm[SevKeys[k]][2] = "str" /\ Upper(dm[SevKeys[k]][3]) = Upper(Band(ver, e.out.scores[k])))
       known == KnownKeys(ver)
   IN IF dup THEN "duplicate-key"
      ELSE IF "version" \notin ks THEN "version"
      ELSE IF ~versionOk THEN "version"
      ELSE IF "vectorString" \notin ks THEN "vectorString"
      ELSE IF dm["vectorString"][2] # "str" \/ dm["vectorString"][3] # e.s THEN "vectorString"
      ELSE IF "baseScore" \notin ks THEN "baseScore-missing"
      ELSE IF scoreBad THEN "score-field"
      ELSE IF sevBad THEN "severity-field"
      ELSE IF badMetric # {} THEN "metric-field-" \o (CHOOSE m \in badMetric : TRUE)
      ELSE IF \E k \in ks : k \notin known THEN "unknown-key-" \o (CHOOSE k \in ks : k \notin known)
      ELSE IF \E m \in SeqToSet(MandOf(ver)) : \A key \in KeyOfMetric(ver, m) : key \notin ks THEN "base-field-missing"
      ELSE "ok"
\* sorted variant: same fields, ascending keys
SortedOk(u, s) == IF AsSet(u) # AsSet(s) \/ Len(u) # Len(s) THEN "sort-changes-content"
                  ELSE IF \E k \in 1..(Len(s)-1) : ~StrLess(s[k][1], s[k+1][1]) THEN "sort-order"
                  ELSE "ok"
\* minimal variant: the full document minus whole temporal / environmental groups; never a group
\* with a defined metric
RECURSIVE Restrict(_,_,_)
Restrict(doc, keep, k) == IF k > Len(doc) THEN <<>> ELSE (IF doc[k][1] \in keep THEN <<doc[k]>> ELSE <<>>) \o Restrict(doc, keep, k+1)
MinimalOk(ver, g, full, min) ==
   LET removed == Keys(full) \ Keys(min)
       grp == GroupMetrics(ver)
       gkeys(n) == UNION {KeyOfMetric(ver, grp[n][k]) : k \in 1..Len(grp[n])} \cup {ScoreKeys[n+1], SevKeys[n+1]}
       gdefined(n) == \E k \in 1..Len(grp[n]) : grp[n][k] \in DOMAIN g /\ g[grp[n][k]] # NDOf(ver)
       whole == \A n \in 1..Len(grp) : (removed \cap gkeys(n) = {}) \/ ((Keys(full) \cap gkeys(n)) \subseteq removed)
   IN IF min # Restrict(full, Keys(min), 1) THEN "minimal-changes-or-reorders-fields"
      ELSE IF \E key \in removed : \A n \in 1..Len(grp) : key \notin gkeys(n) THEN "minimal-removes-non-group-field"
      ELSE IF ~whole THEN "minimal-removes-part-of-a-group"
      ELSE IF \E n \in 1..Len(grp) : gdefined(n) /\ removed \cap gkeys(n) # {} THEN "minimal-removes-group-with-defined-metric-" \o (IF \E n \in 1..Len(grp) : n = 1 /\ gdefined(n) /\ removed \cap gkeys(n) # {} THEN "temporal" ELSE "environmental")
      ELSE "ok"
=============================================================================
