------------------------------ MODULE JsonSchema ------------------------------
(* The four official FIRST JSON schemas (cvss-v2.0.json, cvss-v3.0.json, cvss-v3.1.json,
   cvss-v4.0.json) as predicates over a decoded JSON object.
   A document is a sequence of <<key, type, text>> with type in {"str","num","int","bool","null",
   "other"} and text the escaped string / the repr of the number (drivers/obs.py).
   SchemaVerdict returns "ok" or the location of the first violated schema clause.
   None of the schemas sets additionalProperties, so unknown keys are allowed.            *)
EXTENDS Api

Keys(doc) == {doc[k][1] : k \in 1..Len(doc)}
HasKey(doc, key) == key \in Keys(doc)
Get(doc, key) == doc[CHOOSE k \in 1..Len(doc) : doc[k][1] = key]     \* <<key, type, text>>

\* value of a JSON number text in units of 10^-1 when it is a plain decimal with at most one
\* fractional digit ("7", "7.5", "10.0"); -1 otherwise
Tenths(txt) == IF AllDigits(txt) /\ Len(txt) <= 3 THEN 10 * (IF Len(txt) = 1 THEN DigitVal(Ch(txt,1))
                                                         ELSE IF Len(txt) = 2 THEN 10*DigitVal(Ch(txt,1)) + DigitVal(Ch(txt,2))
                                                         ELSE 100*DigitVal(Ch(txt,1)) + 10*DigitVal(Ch(txt,2)) + DigitVal(Ch(txt,3)))
               ELSE LET d == IndexFrom(txt, ".", 1) IN
                    IF d = 0 \/ d = 1 \/ d # Len(txt) - 1 THEN -1
                    ELSE LET ip == SubSeq(txt,1,d-1) IN
                         IF ~AllDigits(ip) \/ Len(ip) > 3 \/ Ch(txt,Len(txt)) \notin Digits THEN -1
                         ELSE 10 * (IF Len(ip) = 1 THEN DigitVal(Ch(ip,1)) ELSE IF Len(ip) = 2 THEN 10*DigitVal(Ch(ip,1)) + DigitVal(Ch(ip,2))
                                    ELSE 100*DigitVal(Ch(ip,1)) + 10*DigitVal(Ch(ip,2)) + DigitVal(Ch(ip,3))) + DigitVal(Ch(txt,Len(txt)))
\* "number within [0,10]" for a non-negative decimal repr with any number of fractional digits
IsPlainDecimal(txt) == LET d == IndexFrom(txt, ".", 1) IN
                       IF d = 0 THEN AllDigits(txt)
                       ELSE d > 1 /\ d < Len(txt) /\ AllDigits(SubSeq(txt,1,d-1)) /\ AllDigits(SubSeq(txt,d+1,Len(txt)))
IntPartVal(txt) == LET d == IndexFrom(txt, ".", 1)  ip == IF d = 0 THEN txt ELSE SubSeq(txt,1,d-1) IN
                   IF Len(ip) > 4 THEN 99999 ELSE SmallVal(DigitsOf(ip), 0)
FracIsZero(txt) == LET d == IndexFrom(txt, ".", 1) IN d = 0 \/ \A k \in (d+1)..Len(txt) : Ch(txt,k) = "0"
InZeroTen(txt) == IsPlainDecimal(txt) /\ (IntPartVal(txt) < 10 \/ (IntPartVal(txt) = 10 /\ FracIsZero(txt)))
IsNumber(f) == f[2] \in {"num","int"}

EnumOf(names, vals) == {names[vals[k]] : k \in 1..Len(vals)}
Severities == {"NONE","LOW","MEDIUM","HIGH","CRITICAL"}

\* check one property if present: str with value in enum
EnumClause(doc, key, enum) == ~HasKey(doc, key) \/ (Get(doc, key)[2] = "str" /\ Get(doc, key)[3] \in enum)
ScoreClause(doc, key) == ~HasKey(doc, key) \/ (IsNumber(Get(doc, key)) /\ InZeroTen(Get(doc, key)[3]))
\* the failing enum clauses, each with the offending value
BadEnums(doc, order, keys, names, vals) ==
   {"properties/" \o keys[order[k]] \o "/enum=" \o (IF Get(doc, keys[order[k]])[2] = "str" THEN Get(doc, keys[order[k]])[3] ELSE "<" \o Get(doc, keys[order[k]])[2] \o ">")
      : k \in {q \in 1..Len(order) : ~EnumClause(doc, keys[order[q]], EnumOf(names[order[q]], vals[order[q]]))}}
Required(doc, ks) == {"required/" \o k : k \in {x \in ks : ~HasKey(doc, x)}}
VersionFail(doc, want) == IF HasKey(doc,"version") /\ ~(Get(doc,"version")[2] = "str" /\ Get(doc,"version")[3] = want)
                          THEN {"properties/version/enum=" \o Get(doc,"version")[3]} ELSE {}
PatternFail(doc, pv) == IF HasKey(doc,"vectorString") /\ ~(Get(doc,"vectorString")[2] = "str" /\ OfficialPattern(pv, Get(doc,"vectorString")[3]))
                        THEN {"properties/vectorString/pattern"} ELSE {}
ScoreFails(doc) == {"properties/" \o k \o "/scoreType" : k \in {x \in {"baseScore","temporalScore","environmentalScore"} : ~ScoreClause(doc, x)}}
SevFails(doc) == {"properties/" \o k \o "/severityType=" \o Get(doc,k)[3] : k \in {x \in {"baseSeverity","temporalSeverity","environmentalSeverity"} : ~EnumClause(doc, x, Severities)}}

Schema2(doc) == Required(doc, {"version","vectorString","baseScore"}) \cup VersionFail(doc, "2.0") \cup PatternFail(doc, "2")
                \cup BadEnums(doc, Order2, JsonKey2, JsonName2, Vals2) \cup ScoreFails(doc)
Schema3(pv, doc) == Required(doc, {"version","vectorString","baseScore","baseSeverity"}) \cup VersionFail(doc, pv) \cup PatternFail(doc, pv)
                    \cup BadEnums(doc, Order3, JsonKey3, JsonName3, Vals3) \cup ScoreFails(doc) \cup SevFails(doc)

\* v4.0: allOf [ anyOf over the five (score range, severity constant) couples ] for base, threat, environmental
Couple4(doc, sk, vk, up) ==
   LET okScore(lo, hi) == ~HasKey(doc, sk) \/ (IsNumber(Get(doc, sk)) /\ Tenths(Get(doc, sk)[3]) >= lo /\ Tenths(Get(doc, sk)[3]) <= hi)
       okSev(name) == ~HasKey(doc, vk) \/ (Get(doc, vk)[2] = "str" /\ (IF up THEN Upper(Get(doc, vk)[3]) ELSE Get(doc, vk)[3]) = name)
   IN \/ (okScore(0,0) /\ okSev("NONE")) \/ (okScore(1,39) /\ okSev("LOW")) \/ (okScore(40,69) /\ okSev("MEDIUM"))
      \/ (okScore(70,89) /\ okSev("HIGH")) \/ (okScore(90,100) /\ okSev("CRITICAL"))
\* a failing couple is reported with its cause: only the letter case of the severity, or a real mismatch
CoupleFail(doc, n, sk, vk) == IF Couple4(doc, sk, vk, FALSE) THEN {}
                              ELSE IF Couple4(doc, sk, vk, TRUE) THEN {"allOf/" \o n \o "/anyOf:severity-not-upper-case"}
                              ELSE {"allOf/" \o n \o "/anyOf:score-severity-mismatch"}
Schema4(doc) == Required(doc, {"version","vectorString","baseScore","baseSeverity"}) \cup VersionFail(doc, "4.0") \cup PatternFail(doc, "4")
                \cup BadEnums(doc, Official4, JsonKey4, JsonName4, Vals4)
                \cup CoupleFail(doc, "0", "baseScore", "baseSeverity") \cup CoupleFail(doc, "1", "threatScore", "threatSeverity")
                \cup CoupleFail(doc, "2", "environmentalScore", "environmentalSeverity")

\* set of violated schema clauses; {} = the document validates
SchemaFails(sv, doc) == IF sv = "2.0" THEN Schema2(doc) ELSE IF sv = "4.0" THEN Schema4(doc) ELSE Schema3(sv, doc)
SchemaVerdict(sv, doc) == IF SchemaFails(sv, doc) = {} THEN "ok" ELSE ToString(SchemaFails(sv, doc))
SchemaVersion(ver, minor) == IF ver = "2" THEN "2.0" ELSE IF ver = "4" THEN "4.0" ELSE IF minor = 0 THEN "3.0" ELSE "3.1"
=============================================================================
