------------------------------ MODULE TraceWalks ------------------------------
(* Relation-only trace specification for rewrite walks (C05, C06).  An event is one walk:
   [ver, minor, ops, strings, out: [obs : sequence of observations, eq0, eq0r, hash0]] where
   strings[k] was given to the real constructor and obs[k] is everything observable about the
   result; eq0[k] = (obj1 == objk), eq0r[k] = (objk == obj1), ne0 / ne0r the same with !=, in0[k] = (objk in {obj1}), hash0[k] = (hash equal).
   TLC re-parses every string, checks that consecutive strings are related by the rewrite the
   step names (so neither the generator nor the replayer is trusted), and demands exactly the
   equalities the property states.  No score oracle is consulted.                            *)
EXTENDS Api, Json, IOUtils, FiniteSets, TraceData
T == TraceData
VARIABLES i, ph
Init == i \in 1..Len(T) /\ ph = 0
Next == ph = 0 /\ ph' = 1 /\ i' = i
Spec == Init /\ [][Next]_<<i, ph>>

With(g, m, v) == [x \in DOMAIN g \cup {m} |-> IF x = m THEN v ELSE g[x]]
Without(g, m) == [x \in DOMAIN g \ {m} |-> g[x]]
NDin(ver, g, m) == m \notin DOMAIN g \/ g[m] = NDOf(ver)
AgreeOutside(g, h, S) == /\ (DOMAIN g) \ S = (DOMAIN h) \ S /\ \A x \in (DOMAIN g) \ S : g[x] = h[x]
ModBase(ver) == IF ver = "3" THEN BaseOf3 ELSE IF ver = "4" THEN BaseOf4 ELSE [x \in {} |-> ""]
NDEq(ver) == IF ver = "2" THEN NDEquiv2 ELSE IF ver = "3" THEN NDEquiv3 ELSE NDEquiv4
TempSet(ver) == IF ver = "2" THEN SeqToSet(Temporal2) ELSE IF ver = "3" THEN SeqToSet(Temporal3) ELSE {}
EnvSet(ver) == IF ver = "2" THEN SeqToSet(Environmental2) ELSE IF ver = "3" THEN SeqToSet(Environmental3) ELSE {}
\* is <<g, h>> in the rewrite relation named op ?
Related(ver, op, g, h) ==
   CASE op = "swap" -> g = h
     [] op = "addND" -> \E m \in (MetricsOf(ver) \ MandSetOf(ver)) \ DOMAIN g : h = With(g, m, NDOf(ver))
     [] op = "dropND" -> \E m \in (DOMAIN g) \ MandSetOf(ver) : g[m] = NDOf(ver) /\ h = Without(g, m)
     [] op = "modToBase" -> \E m \in DOMAIN ModBase(ver) : NDin(ver, g, m) /\ h = With(g, m, g[ModBase(ver)[m]])
     [] op = "ndToEquiv" -> \E m \in DOMAIN NDEq(ver) : NDin(ver, g, m) /\ h = With(g, m, NDEq(ver)[m])
     [] op = "setSupp" -> ver = "4" /\ AgreeOutside(g, h, SeqToSet(Supplemental4))
     [] op = "changeOverridden" -> \E m \in DOMAIN ModBase(ver) : ~NDin(ver, g, m) /\ AgreeOutside(g, h, {ModBase(ver)[m]}) /\ ModBase(ver)[m] \in DOMAIN h
     [] op = "changeTemporal" -> \E m \in TempSet(ver) : AgreeOutside(g, h, {m})
     [] op = "changeEnv" -> \E m \in EnvSet(ver) : AgreeOutside(g, h, {m})
     [] OTHER -> FALSE
AllObs(o) == <<o.scores, o.sev, o.clean, o.clean_np, o.rh, o.tv, o.ev>>
\* slots that must be unchanged by the step, given the previous scores
Kept(ver, op, prev) ==
   CASE op \in {"swap","addND","dropND","modToBase","ndToEquiv","setSupp"} -> {k \in 1..Len(prev) : prev[k] >= 0}
     [] op = "changeOverridden" -> IF ver = "3" THEN {3} ELSE IF ver = "4" THEN {1} ELSE {}
     [] op = "changeTemporal" -> {1}
     [] op = "changeEnv" -> {1, 2}
     [] OTHER -> {}
WalkVerdict(e) ==
   LET n == Len(e.strings)
       P == TLCEval([k \in 1..n |-> TLCEval(Parse(e.ver, e.strings[k]))])
       O == e.out.obs
       badParse == {k \in 1..n : P[k].cls # "ok" \/ P[k].minor # e.minor}
       badRel == {k \in 2..n : ~Related(e.ver, e.ops[k], P[k-1].given, P[k].given)}
       rejected == {k \in 1..n : O[k].cls # "ok"}
       c05 == {k \in 2..n : e.ops[k] \in {"swap","addND","dropND"}}
       \* C05: a maximal prefix of C05 steps keeps every observable of the first state
       pre == {k \in 2..n : \A j \in 2..k : j \in c05}
       obsDiff == {k \in pre : AllObs(O[k]) # AllObs(O[1])}
       eqDiff == {k \in pre : ~e.out.eq0[k] \/ ~e.out.eq0r[k] \/ e.out.ne0[k] \/ e.out.ne0r[k] \/ ~e.out.in0[k]}      \* ==, != (both ways round), set membership
       hashDiff == {k \in pre : ~e.out.hash0[k]}
       scoreDiff == {k \in 2..n : \E s \in Kept(e.ver, e.ops[k], O[k-1].scores) : s <= Len(O[k].scores) /\ O[k].scores[s] # O[k-1].scores[s]}
       First(S) == CHOOSE x \in S : \A y \in S : x <= y
       At(S, what) == what \o ":" \o e.ops[First(S)] \o ":" \o e.strings[First(S) - 1] \o " -> " \o e.strings[First(S)]
   IN IF badParse # {} THEN "generator-invalid-vector"
      ELSE IF badRel # {} THEN "generator-step-not-in-relation:" \o e.ops[First(badRel)]
      ELSE IF 1 \in rejected THEN "ok"         \* acceptance of the start vector is C04's business
      ELSE IF rejected # {} THEN At(rejected, "rewritten-vector-rejected")     \* the rewrite is grammatical (checked above): its outputs are not "unchanged"
      ELSE IF scoreDiff # {} THEN At(scoreDiff, "scores-change")
      ELSE IF obsDiff # {} THEN At(obsDiff, "observables-change")
      ELSE IF eqDiff # {} THEN At(eqDiff, "not-equal")
      ELSE IF hashDiff # {} THEN At(hashDiff, "hash-differs")
      ELSE "ok"
Inv == ph = 0 \/ LET v == WalkVerdict(T[i]) IN v = "ok" \/ PrintT("FAIL " \o ToString(i) \o " " \o v)
=============================================================================
