------------------------------ MODULE TraceInternals ------------------------------
(* Conformance of the library's intermediate quantities (public attributes / methods) with Internals.tla.
   One event per vector: [ver, s, out |-> [cls, desc (<<metric, text>> pairs), and per version
     4: macro (string), m (values in the order of M4Metrics)
     3: iscb6, miscb6 (integers), esc10, mesc10 (naturals as limbs), isc12, misc12 ([n |-> negative, m |-> limbs])
     2: imp17, adj17 (naturals as limbs) ]]
   Reported as notes beyond the listed properties (the scores themselves are judged by C01-C03).               *)
EXTENDS Internals, Json, IOUtils, TraceData
T == TraceData
VARIABLES i, ph
Init == i \in 1..Len(T) /\ ph = 0
Next == ph = 0 /\ ph' = 1 /\ i' = i
Spec == Init /\ [][Next]_<<i, ph>>
Lb(x) == Trim(x)          \* limbs as recorded (JSON arrays; [] = 0)
DescBad(e, g) == {k \in 1..Len(e.out.desc) : e.out.desc[k][2] # Description(e.ver, g, e.out.desc[k][1])}
Verdict(e) ==
   LET p == Parse(e.ver, e.s) IN
   IF p.cls # "ok" \/ e.out.cls # "ok" THEN "ok"               \* acceptance is C04's business
   ELSE LET g == p.given IN
   IF DescBad(e, g) # {} THEN "description-of-" \o e.out.desc[CHOOSE k \in DescBad(e, g) : TRUE][1]
   ELSE IF e.ver = "4" THEN
        (IF e.out.macro # MacroString(g) THEN "macro-vector spec=" \o MacroString(g) \o " code=" \o e.out.macro
         ELSE IF \E k \in 1..Len(M4Metrics) : e.out.m[k] # M4(g, M4Metrics[k]) THEN "effective-value"
         ELSE "ok")
   ELSE IF e.ver = "3" THEN
        LET m == Full("3", g) IN
        (IF e.out.iscb6 # IscBase6(m) THEN "isc_base"
         ELSE IF Lb(e.out.esc10) # Esc10(m).m THEN "esc"
         ELSE IF ~Near(Lb(e.out.isc12.m), Trunc12(Isc92(m), 92)) THEN "isc"
         ELSE IF Lb(e.out.isc12.m) # <<>> /\ e.out.isc12.n # Isc92(m).n THEN "isc-sign"
         ELSE IF e.out.miscb6 # MIscBase6(m) THEN "modified_isc_base"
         ELSE IF Lb(e.out.mesc10) # MEsc10(m).m THEN "modified_esc"
         ELSE IF ~Near(Lb(e.out.misc12.m), Trunc12(MIsc(p.minor, m), MIscScale(p.minor))) THEN "modified_isc"
         ELSE IF Lb(e.out.misc12.m) # <<>> /\ e.out.misc12.n # MIsc(p.minor, m).n THEN "modified_isc-sign"
         ELSE "ok")
   ELSE LET m == Full("2", g) IN
        (IF Lb(e.out.imp17) # Impact2x17(m).m THEN "impact_equation"
         ELSE IF Lb(e.out.adj17) # AdjImpact2x17(m).m THEN "adjusted_impact_equation"
         ELSE "ok")
Inv == ph = 0 \/ LET v == Verdict(T[i]) IN v = "ok" \/ PrintT("FAIL " \o ToString(i) \o " " \o v)
=============================================================================
