------------------------------ MODULE Cli ------------------------------
(* The command-line calculator (cvss_calculator.main) as a composition of stages:
     ParseArgs -> SelectVersion -> TakeVector | RunInteractive -> Construct -> PrintError | PrintScores
     [-> PrintJson] -> Exit(0);   end of input during the interactive stage -> Exit(0).
   Flags: "2","3","4" (version), "a" (all metrics), "n" (no colours), "j" (JSON), "v" (a vector
   argument is present and non-empty).                                                      *)
EXTENDS CliOps
\* ---- the stage machine (design check: every path ends in exit status 0) ------------------------
VARIABLES pc, flags, vkind, ikind, bsel, status
cvars == <<pc, flags, vkind, ikind, bsel, status>>
VKinds == {"absent","valid","invalid"}            \* -v argument: none/empty, valid for the selection, not valid
IKinds == {"complete","truncated"}                \* stdin: answers every question / ends early
CInit == pc = "parse" /\ flags \in SUBSET (AllFlags \ {"v"}) /\ vkind \in VKinds /\ ikind \in IKinds /\ bsel = "" /\ status = -1
ParseArgs == pc = "parse" /\ pc' = "select" /\ flags' = (IF vkind = "absent" THEN flags ELSE flags \cup {"v"}) /\ UNCHANGED <<vkind, ikind, bsel, status>>
SelectVersion == pc = "select" /\ \E b \in Selected(flags) : bsel' = b /\ pc' = (IF "v" \in flags THEN "construct" ELSE "interactive") /\ UNCHANGED <<flags, vkind, ikind, status>>
RunInteractive == pc = "interactive" /\ pc' = (IF ikind = "complete" THEN "construct" ELSE "eof") /\ UNCHANGED <<flags, vkind, ikind, bsel, status>>
EofExit == pc = "eof" /\ pc' = "exit" /\ status' = 0 /\ UNCHANGED <<flags, vkind, ikind, bsel>>
\* a vector built interactively is always valid for the selected version (C16)
Construct == pc = "construct" /\ pc' = (IF "v" \in flags /\ vkind = "invalid" THEN "printerror" ELSE "printscores") /\ UNCHANGED <<flags, vkind, ikind, bsel, status>>
PrintError == pc = "printerror" /\ pc' = "exit" /\ status' = 0 /\ UNCHANGED <<flags, vkind, ikind, bsel>>
PrintScores == pc = "printscores" /\ pc' = (IF "j" \in flags THEN "printjson" ELSE "exit") /\ status' = (IF "j" \in flags THEN status ELSE 0) /\ UNCHANGED <<flags, vkind, ikind, bsel>>
PrintJson == pc = "printjson" /\ pc' = "exit" /\ status' = 0 /\ UNCHANGED <<flags, vkind, ikind, bsel>>
CNext == ParseArgs \/ SelectVersion \/ RunInteractive \/ EofExit \/ Construct \/ PrintError \/ PrintScores \/ PrintJson
CSpec == CInit /\ [][CNext]_cvars /\ WF_cvars(CNext)
ExitsZero == pc = "exit" => status = 0
SelectionFlagged == bsel # "" => bsel \in Selected(flags)
AlwaysExits == <>(pc = "exit")
\* generator: one GEN line per initial configuration reaching exit
=============================================================================
