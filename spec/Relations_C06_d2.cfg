SPECIFICATION Spec
INVARIANT Emit
INVARIANT StaysValid
CONSTANT Depth = 2
CONSTANT Family = "C06"
CONSTANT Dense = FALSE
CHECK_DEADLOCK FALSE
