SPECIFICATION Spec
INVARIANT Emit
INVARIANT StaysValid
CONSTANT Depth = 2
CONSTANT Family = "C06"
CHECK_DEADLOCK FALSE
