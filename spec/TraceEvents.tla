------------------------------ MODULE TraceEvents ------------------------------
(* Trace specification for string-level events recorded from the public API (code -> spec).
   One event = one public call with its arguments and everything observable about the result
   (drivers/events.py).  Prop selects which property's clauses are demanded of each event, so
   that every property is judged by exactly what it states:
     C04  acceptance = grammar, error taxonomy            (construct events, all three classes)
     C07  clean_vector canonical, ==/hash consistent      (construct + pool events)
     C08  emitted vector strings valid                    (construct events)
     C12  Red Hat notation                                (construct + fromrh events)
     C15  temporal / environmental sub-vectors            (construct events, v2 / v3)
   Verdicts are total: "ok" or the name of the first failing clause.                        *)
EXTENDS Api, ParserMachine, Json, IOUtils, FiniteSets, TraceData
CONSTANT Prop
T == TraceData
VARIABLES i, ph
\* state <<0,1>> carries the whole-trace clauses (C07: one fixed metric order across all outputs)
Init == (i \in 1..Len(T) /\ ph = 0) \/ (i = 0 /\ ph = 0)
Next == ph = 0 /\ ph' = 1 /\ i' = i
Spec == Init /\ [][Next]_<<i, ph>>

Ok(e) == e.out.cls = "ok"
ExcName(ver, cls) == "CVSS" \o ver \o (CASE cls = "malformed" -> "MalformedError" [] cls = "mandatory" -> "MandatoryError"
                                         [] cls = "rhmalformed" -> "RHMalformedError" [] cls = "rhmismatch" -> "RHScoreDoesNotMatch")
\* ---- C04 -----------------------------------------------------------------------------------
C04(e) == LET p == Parse(e.ver, e.s) IN
   IF Ok(e) THEN (IF p.cls = "ok" THEN (IF e.out.minor = p.minor THEN "ok" ELSE "minor-version") ELSE "accepted-" \o p.cls)
   ELSE IF ~e.out.e.is_cvss_error THEN "foreign-exception-" \o e.out.e.exc
   ELSE IF p.cls = "ok" THEN "rejected-valid-" \o e.out.e.exc
   ELSE IF e.out.e.exc = ExcName(e.ver, p.cls) THEN "ok" ELSE "wrong-error-class-" \o e.out.e.exc \o "-for-" \o p.cls

\* beyond the property: the machine of ParserMachine.tla (implementation step order) must agree with the
\* grammar (else the specification is inconsistent) and predicts the exact text of the error message
C04M(e) == LET mo == Machine(e.ver, e.s) IN
   IF mo.cls # Classify(e.ver, e.s) THEN "SPEC-INCONSISTENT-machine-does-not-refine-grammar"
   ELSE IF Ok(e) THEN "ok"
   ELSE IF mo.cls = "ok" THEN "ok"                       \* C04's business
   \* the published exception hierarchy: CVSS<n><Kind> < CVSS<n>Error < CVSSError < Exception
   ELSE IF e.out.e.is_cvss_error /\ e.out.e.mro # <<e.out.e.exc, "CVSS" \o e.ver \o "Error", "CVSSError", "Exception", "BaseException", "object">> THEN "exception-hierarchy-of-" \o e.out.e.exc
   ELSE IF e.out.e.msg = (IF Len(mo.msg) > 300 THEN SubSeq(mo.msg, 1, 300) ELSE mo.msg) THEN "ok" ELSE "message-differs:" \o mo.msg

\* ---- C07 (per event) -------------------------------------------------------------------------
FieldsOf(ver, body) == IF body = "" THEN <<>> ELSE Split(body, "/")
\* metric names of a cleaned body, <<>> entries for malformed fields
MetricSeq(ver, body) == LET fs == FieldsOf(ver, body) IN [k \in 1..Len(fs) |-> LET f == Field(ver, fs[k]) IN IF f = <<>> THEN "" ELSE f[1]]
PairSet(ver, body) == LET fs == FieldsOf(ver, body) IN {Field(ver, fs[k]) : k \in 1..Len(fs)}
C07(e) ==
   IF e.op = "pool" THEN "ok"   \* pools are judged by C07Pool
   ELSE IF ~Ok(e) THEN "ok"     \* acceptance is C04's business
   ELSE LET p == Parse(e.ver, e.s)
            pre == PrefixStr(e.ver, e.out.minor)
            body == IF e.ver = "2" THEN e.out.clean ELSE e.out.clean_np
            ms == MetricSeq(e.ver, body)
            q == Parse(e.ver, e.out.clean)
        IN IF e.ver # "2" /\ e.out.clean # pre \o e.out.clean_np THEN "prefix"
           ELSE IF \E k \in 1..Len(ms) : ms[k] = "" THEN "clean-field-malformed"
           ELSE IF \E x, y \in 1..Len(ms) : x < y /\ ms[x] = ms[y] THEN "metric-twice"
           \* whatever was accepted (C04 decides whether it should have been): the output is a fixed point of the canonical form
           ELSE IF q.cls # "ok" THEN "clean-not-in-grammar"
           ELSE IF Clean(e.ver, q.minor, q.given, TRUE) # e.out.clean THEN "clean-not-canonical"
           ELSE IF p.cls = "ok" /\ PairSet(e.ver, body) # Defined(e.ver, p.given) THEN "not-exactly-the-defined-metrics"
           ELSE IF e.out.re_clean.cls # "ok" THEN "clean-not-reparsable"
           ELSE IF e.out.re_clean.scores # e.out.scores THEN "reparse-scores-differ"
           ELSE IF e.out.re_clean.clean # e.out.clean THEN "reparse-clean-differs"
           ELSE IF ~e.out.re_clean.eq THEN "reparse-not-equal"
           ELSE IF ~e.out.re_clean.hash_eq THEN "reparse-hash-differs"
           ELSE "ok"
\* pools: the ==/hash/set matrix is exactly the specification's equality
C07Pool(e) ==
   LET n == Len(e.items)
       P == TLCEval([k \in 1..n |-> TLCEval(Parse(e.items[k].ver, e.items[k].s))])
       D == TLCEval([k \in 1..n |-> TLCEval(Defined(e.items[k].ver, P[k].given))])
       okk(k) == e.out.objs[k].cls = "ok" /\ P[k].cls = "ok"
       SpecEq(a, b) == e.items[a].ver = e.items[b].ver /\ P[a].minor = P[b].minor /\ D[a] = D[b]
       Obs(k) == <<e.out.objs[k].scores, e.out.objs[k].sev, e.out.objs[k].clean>>
   IN IF Len(e.out.raised) > 0 THEN "comparison-raised-" \o e.out.raised[1]
      ELSE IF \E a \in 1..n : ~e.out.unchanged_after[a] THEN "comparison-changed-an-operand"
      ELSE IF \E a, b \in 1..n : okk(a) /\ okk(b) /\ e.out.eq[a][b] # SpecEq(a, b) THEN "eq-matrix"
      ELSE IF \E a, b \in 1..n : okk(a) /\ okk(b) /\ e.out.ne[a][b] = e.out.eq[a][b] THEN "ne-not-negation-of-eq"
      ELSE IF \E a, b \in 1..n : okk(a) /\ okk(b) /\ e.out.eq[a][b] /\ ~e.out.hash_eq[a][b] THEN "equal-but-hash-differs"
      ELSE IF \E a, b \in 1..n : okk(a) /\ okk(b) /\ e.out.eq[a][b] /\ Obs(a) # Obs(b) THEN "equal-but-observables-differ"
      ELSE IF \E a, b \in 1..n : okk(a) /\ okk(b) /\ e.out.in_set[a][b] # e.out.eq[a][b] THEN "set-membership"
      ELSE IF \E a \in 1..n : okk(a) /\ e.out.foreign_eq[a] THEN "equals-foreign-value"
      ELSE IF \E a \in 1..n : okk(a) /\ ~e.out.eq[a][a] THEN "not-reflexive"
      ELSE IF \E a, b \in 1..n : okk(a) /\ okk(b) /\ e.out.eq[a][b] # e.out.eq[b][a] THEN "not-symmetric"
      ELSE "ok"
\* whole trace: adjacent-metric precedence over all cleaned vectors of a version must be acyclic
Adj(ver) == UNION { LET ms == MetricSeq(ver, IF ver = "2" THEN T[k].out.clean ELSE T[k].out.clean_np) IN
                    {<<ms[x], ms[x+1]>> : x \in 1..(Len(ms)-1)}
                    : k \in {q \in 1..Len(T) : T[q].op = "construct" /\ T[q].ver = ver /\ T[q].out.cls = "ok"} }
RECURSIVE Reach(_,_,_)
Reach(R, S, n) == IF n = 0 THEN S ELSE LET S2 == S \cup {r[2] : r \in {x \in R : x[1] \in S}} IN IF S2 = S THEN S ELSE Reach(R, S2, n-1)
Acyclic(R) == \A r \in R : r[1] \notin Reach(R, {r[2]}, 40)
C07Order == IF \A ver \in Versions : Acyclic(TLCEval(Adj(ver))) THEN "ok" ELSE "spelling-dependent-order"

\* ---- C08 -----------------------------------------------------------------------------------
C08(e) ==
   IF ~Ok(e) THEN "ok"
   ELSE LET pv == PatternVersion(e.ver, e.out.minor)
            rhs == RhSplit(e.out.rh)
        IN IF Classify(e.ver, e.out.clean) # "ok" THEN "clean-rejected-by-grammar"
           ELSE IF e.out.re_clean.cls # "ok" THEN "clean-rejected-by-library"
           ELSE IF rhs = <<>> THEN "rh-no-slash"
           ELSE IF Classify(e.ver, rhs[2]) # "ok" THEN "rh-vector-rejected-by-grammar"
           ELSE IF ~OfficialPattern(pv, e.out.clean) THEN "clean-violates-official-pattern"
           ELSE IF ~OfficialPattern(pv, rhs[2]) THEN "rh-vector-violates-official-pattern"
           ELSE "ok"

\* the string returned by the interactive builder (events [op |-> "builder", ver, minor, value])
C08B(e) == IF Classify(e.ver, e.value) # "ok" THEN "builder-return-rejected-by-grammar"
           ELSE IF MinorOf(e.ver, e.value) # e.minor THEN "builder-return-wrong-minor-version"
           ELSE IF ~OfficialPattern(PatternVersion(e.ver, e.minor), e.value) THEN "builder-return-violates-official-pattern"
           ELSE IF ~e.lib_accepts THEN "builder-return-rejected-by-library"
           ELSE "ok"

\* ---- C12 -----------------------------------------------------------------------------------
C12(e) ==
   IF e.op = "construct" THEN
      (IF ~Ok(e) THEN "ok"
       ELSE IF e.out.scores[1] \notin 0..100 THEN "ok"      \* malformed scores are C09's business
       ELSE IF e.out.rh # ScoreText(e.out.scores[1]) \o "/" \o e.out.clean THEN "rh-format"
       ELSE IF e.out.re_rh.cls # "ok" THEN "rh-roundtrip-rejected"
       ELSE IF ~e.out.re_rh.eq THEN "rh-roundtrip-not-equal"
       ELSE "ok")
   ELSE IF e.op = "fromrh" THEN
      LET sp == RhSplit(e.s)
          base == IF sp # <<>> /\ e.rest_out.cls = "ok" THEN e.rest_out.scores[1] ELSE -1
          want == FromRhClass(e.ver, e.s, base)
      IN IF sp # <<>> /\ e.rest # sp[2] THEN "driver-split"
         ELSE IF sp # <<>> /\ (e.rest_out.cls = "ok") # (Classify(e.ver, sp[2]) = "ok") THEN "ok"   \* C04's business
         ELSE IF Ok(e) THEN (IF want = "ok" THEN (IF e.out.clean = e.rest_out.clean /\ e.out.scores = e.rest_out.scores THEN "ok" ELSE "rh-object-differs")
                             ELSE "accepted-" \o want)
         ELSE IF ~e.out.e.is_cvss_error THEN "foreign-exception-" \o e.out.e.exc
         ELSE IF want = "ok" THEN "rejected-valid-" \o e.out.e.exc
         ELSE IF e.out.e.exc = ExcName(e.ver, want) THEN "ok" ELSE "wrong-error-class-" \o e.out.e.exc \o "-for-" \o want
   ELSE "ok"

\* ---- C15 -----------------------------------------------------------------------------------
RECURSIVE BaseFields(_,_,_)
BaseFields(g, mand, k) == IF k > Len(mand) THEN <<>> ELSE <<mand[k] \o ":" \o g[mand[k]]>> \o BaseFields(g, mand, k+1)
C15(e) ==
   IF ~Ok(e) \/ e.ver = "4" THEN "ok"
   ELSE LET p == Parse(e.ver, e.s) IN
        IF p.cls # "ok" THEN "ok"
        ELSE IF e.out.tv # TemporalVector(e.ver, p.given) THEN "temporal-vector"
        ELSE IF e.out.ev # EnvironmentalVector(e.ver, p.given) THEN "environmental-vector"
        ELSE IF e.out.asm.s # PrefixStr(e.ver, p.minor) \o Join(BaseFields(p.given, MandOf(e.ver), 1), "/") \o "/" \o e.out.tv \o "/" \o e.out.ev
             THEN "driver-assembly"
        ELSE IF e.out.asm.cls # "ok" THEN "reassembled-rejected"
        ELSE IF e.out.asm.scores # e.out.scores THEN "reassembled-scores-differ"
        ELSE "ok"

Verdict(e) == CASE Prop = "C04" -> C04(e)
                [] Prop = "C04M" -> C04M(e)
                [] Prop = "C07" -> (IF e.op = "pool" THEN C07Pool(e) ELSE C07(e))
                [] Prop = "C08" -> (IF e.op = "builder" THEN C08B(e) ELSE C08(e))
                [] Prop = "C12" -> C12(e)
                [] Prop = "C15" -> C15(e)
Inv == ph = 0 \/ (IF i = 0 THEN (Prop # "C07" \/ C07Order = "ok" \/ PrintT("FAIL 0 " \o C07Order))
                  ELSE LET v == Verdict(T[i]) IN
                       /\ (v = "ok" \/ PrintT("FAIL " \o ToString(i) \o " " \o v))
                       /\ (Prop = "C04" => LET n == C04M(T[i]) IN n = "ok" \/ PrintT("NOTE " \o ToString(i) \o " " \o n)))
=============================================================================
