------------------------------ MODULE MC_GenText ------------------------------
EXTENDS GenText
PiecesDef == << "AV:N/AC:L/Au:N/C:P/I:P/A:P", "AV:N/AC:L/Au:N/C:P/I:P/A:", "AV:L/AC:H/Au:M/C:N/I:N/A:C/E:ND/RL:W",
                "A:P/I:P/C:P/Au:N/AC:L/AV:N", "AV:N/AC:L/Au:N/C:P/I:P/A:P/AV:L",
                "CVSS:3.0/AV:N/AC:L/PR:N/UI:N/S:U/C:H/I:H/A:H", "CVSS:3.1/AV:N/AC:L/PR:N/UI:N/S:U/C:H/I:H/A:H",
                "CVSS:3.1/A:H/I:H/C:H/S:U/UI:N/PR:N/AC:L/AV:N/E:X", "CVSS:3.7/AV:N/AC:L/PR:N/UI:N/S:U/C:H/I:H/A:H",
                "CVSS:3.1/AV:N/AC:L/PR:N/UI:N/S:U/C:H/I:H",
                "CVSS:4.0/AV:N/AC:L/AT:N/PR:N/UI:N/VC:H/VI:H/VA:H/SC:N/SI:N/SA:N",
                "CVSS:3.", "CVSS:", "3.1/", " ", ".", "(", ")", "x", ":", "/", "1", "\n", " and " >>
=============================================================================
