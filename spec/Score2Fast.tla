------------------------------ MODULE Score2Fast ------------------------------
(* Tabulation of Score2.tla for bulk evaluation: the raw and the adjusted base score depend on the vector only
   through the product of the three exploitability weights (27 values) and the three impact weights (raw: 27
   triples) resp. the three impact x requirement products (adjusted: 7^3 triples).  Both tables are computed once
   per TLC run from Tables2.tla (about 10 s, only when NEED_V2=1) and kept in TLC registers.
   Scores2Fast = Scores2 by construction.                                                                    *)
EXTENDS Score2, FiniteSets, IOUtils
Rng2(f) == {f[x] : x \in DOMAIN f}
ESet2 == {a * b * c : a \in Rng2(WAV2), b \in Rng2(WAC2), c \in Rng2(WAU2)}
XSet2 == {w * r : w \in Rng2(WCIA2), r \in Rng2(WREQ2)}
RawTabDef == [k \in ESet2 \X Rng2(WCIA2) \X Rng2(WCIA2) \X Rng2(WCIA2) |->
                BaseEqE(k[1], IShift10(IMulS(IOf(1000000000 - (1000-k[2])*(1000-k[3])*(1000-k[4])), 1041), 6))[1]]
AdjTabDef == [k \in ESet2 \X XSet2 \X XSet2 \X XSet2 |-> BaseEqE(k[1], AdjImpact17P(k[2], k[3], k[4]))[1]]
NeedV2 == "NEED_V2" \in DOMAIN IOEnv /\ IOEnv.NEED_V2 = "1"
ASSUME Score2FastInit == IF NeedV2 THEN TLCSet(34, TLCEval(RawTabDef)) /\ TLCSet(35, TLCEval(AdjTabDef)) ELSE TLCSet(34, <<>>) /\ TLCSet(35, <<>>)
RawBaseFast(m) == TLCGet(34)[<<ExplProd(m), WCIA2[m.C], WCIA2[m.I], WCIA2[m.A]>>]
AdjBaseFast(m) == TLCGet(35)[<<ExplProd(m), WCIA2[m.C]*WREQ2[m.CR], WCIA2[m.I]*WREQ2[m.IR], WCIA2[m.A]*WREQ2[m.AR]>>]
Scores2Fast(m) == ScoresFrom(RawBaseFast(m), AdjBaseFast(m), m)
=============================================================================
