------------------------------ MODULE MC_Cli ------------------------------
EXTENDS Cli, TLC, Json
Emit == pc # "parse" \/ PrintT("GEN " \o ToJson([flags |-> flags, vkind |-> vkind, ikind |-> ikind]))
=============================================================================
