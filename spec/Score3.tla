------------------------------ MODULE Score3 ------------------------------
(* CVSS v3.0 / v3.1 equations (specification section 7) in exact integer arithmetic, rounded up
   to one decimal with an exact ceiling.  A vector is a record m with a value for each of the 22
   metrics ("X" when absent or Not Defined); inheritance of Not Defined modified metrics from
   their base metrics is applied here.  Scores are returned in tenths.                     *)
EXTENDS BigInt, Tables3, TLC

Min(x,y) == IF x < y THEN x ELSE y
CeilDiv(x,d) == (x + d - 1) \div d
\* 1 - (1-c)(1-i)(1-a) at scale 10^6 for weights x100
IB6(c,i,a) == 1000000 - (100-c)*(100-i)*(100-a)
\* x^15 and x^13 by repeated squaring
Pow15(x) == LET x2 == IMul(x,x)  x3 == IMul(x2,x)  x6 == IMul(x3,x3)  x7 == IMul(x6,x)  x14 == IMul(x7,x7) IN IMul(x14,x)
Pow13(x) == LET x2 == IMul(x,x)  x3 == IMul(x2,x)  x6 == IMul(x3,x3)  x12 == IMul(x6,x6) IN IMul(x12,x)
\* Impact sub-score. 3.0 / base polynomial at scale 10^92, 3.1 modified polynomial at scale 10^132
ISC30(scope, ib6) == IF scope = "U" THEN IShift10(IOf(642*ib6), 84)
                     ELSE ISub(IShift10(IMulS(IOf(ib6-29000),752), 84), IMulS(Pow15(IOf(ib6-20000)), 325))
ISC31(scope, ib6) == IF scope = "U" THEN IShift10(IOf(642*ib6), 124)
                     ELSE ISub(IShift10(IMulS(IOf(ib6-29000),752), 124),
                               IMulS(Pow13(ISub(IMulS(IOf(ib6),9731), IOf(200000000))), 325))
\* 8.22 x AV x AC x PR x UI at scale 10^10
ESC10(av,ac,pr,ui) == IMulS(IMulS(IMulS(IMulS(IOf(822),av),ac),pr),ui)
\* pre-rounding value min(isc+esc [x1.08], 10) at scale 10^(S+2); isc at scale 10^S
PreRound(scope, isc, esc10, S) ==
   LET sum == IAdd(isc, IShift10(esc10, S-10))
       v == IF scope = "U" THEN IShift10(sum,2) ELSE IMulS(sum,108)
   IN IMin(v, IShift10(IOf(10), S+2))
Final(scope, isc, esc10, S) ==
   IF ICmp(isc, IOf(0)) <= 0 THEN 0 ELSE CeilDivPow10(PreRound(scope, isc, esc10, S), S+1)
PRW(scope, pr) == IF scope = "C" THEN WPRC3[pr] ELSE WPRU3[pr]
Base3(m) == Final(m.S, ISC30(m.S, IB6(WCIA3[m.C],WCIA3[m.I],WCIA3[m.A])),
                  ESC10(WAV3[m.AV],WAC3[m.AC],PRW(m.S,m.PR),WUI3[m.UI]), 92)
Temporal3Eq(b, m) == CeilDiv(b * WE3[m.E] * WRL3[m.RL] * WRC3[m.RC], 1000000)
\* effective value of a modified metric: its own value, or the base metric's when Not Defined
Eff3(m, k) == IF m[k] = "X" THEN m[BaseOf3[k]] ELSE m[k]
\* requirement-weighted impact weight x100 (always an integer: 56,22,0 x 15,10,5 / 10)
RW(m, k, r) == (WCIA3[Eff3(m,k)] * WREQ3[m[r]]) \div 10
MIB6(m) == Min(IB6(RW(m,"MC","CR"), RW(m,"MI","IR"), RW(m,"MA","AR")), 915000)
MIBUncapped6(m) == IB6(RW(m,"MC","CR"), RW(m,"MI","IR"), RW(m,"MA","AR"))
ModBase3(minor, m) ==
   LET ms == Eff3(m,"MS")
       esc == ESC10(WAV3[Eff3(m,"MAV")], WAC3[Eff3(m,"MAC")], PRW(ms, Eff3(m,"MPR")), WUI3[Eff3(m,"MUI")])
       mib == MIB6(m)
   IN IF minor = 0 THEN Final(ms, ISC30(ms,mib), esc, 92) ELSE Final(ms, ISC31(ms,mib), esc, 132)
Scores3From(b, mb, m) == <<b, Temporal3Eq(b,m), Temporal3Eq(mb,m)>>
Scores3(minor, m) == Scores3From(Base3(m), ModBase3(minor,m), m)

\* ---- design-level helpers ------------------------------------------------------------------
\* distance class of a pre-rounding value v (scale 10^(S+2)) to the grid of tenths:
\* "exact" if a multiple of 0.1, else "far" if at least 10^-7 away from the grid on both sides,
\* else "near".  (A 28-digit decimal context errs by < 10^-25 here.)
Margin(v, S) ==
   LET K == S+1                          \* 10^K per tenth
       lo == NDivPow10(v.m, K)           \* <<floor, rem nonzero>>
       \* v * 10^6 floor-divided: the six digits after the tenths digit
       d6 == NDivPow10(v.m, K-6)
       frac == NVal(d6[1], 1) % 1000000
   IN IF ~lo[2] THEN "exact"
      ELSE IF frac >= 1 /\ frac <= 999998 THEN "far" ELSE "near"
=============================================================================
