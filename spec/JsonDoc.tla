------------------------------ MODULE JsonDoc ------------------------------
(* The reference document: what as_json(sort, minimal) is to return for a parsed vector, written as a function of the
   specification's own objects (canonical vector string, effective values, exact scores, rating bands).  MC_Json checks on
   it that the two JSON properties are satisfiable together: the reference document validates against the official schema
   of its version (C10) and is faithful, order-stable under sort and group-wise minimal (C11).  The library's documents are
   compared with the rules, not with this document (key order and optional keys are the library's choice).            *)
EXTENDS JsonRules

KeyOf(ver, mm) == IF ver = "2" THEN JsonKey2[mm] ELSE IF ver = "3" THEN JsonKey3[mm] ELSE JsonKey4[mm]
MetricEntry(ver, g, mm) == <<KeyOf(ver, mm), "str", NameTab(ver)[mm][EffJson(ver, g, mm)]>>
RECURSIVE MetricEntries(_,_,_,_)
MetricEntries(ver, g, order, k) == IF k > Len(order) THEN <<>> ELSE <<MetricEntry(ver, g, order[k])>> \o MetricEntries(ver, g, order, k+1)
ScoreEntries(ver, sc, k) == IF sc[k] < 0 THEN <<>>          \* an undefined (v2) score has no field
                            ELSE <<<<ScoreKeys[k], "num", ScoreText(sc[k])>>>>
                                 \o (IF ver = "2" THEN <<>> ELSE <<<<SevKeys[k], "str", Upper(Band(ver, sc[k]))>>>>)
GroupDefined(ver, g, grp) == \E k \in 1..Len(grp) : grp[k] \in DOMAIN g /\ g[grp[k]] # NDOf(ver)
\* full document: version, vector, base metrics + score, then each optional group with its score
FullDoc(ver, minor, g) ==
   LET sc == ScoresOf(ver, minor, g)
       head == << <<"version", "str", SchemaVersion(ver, minor)>>, <<"vectorString", "str", Clean(ver, minor, g, TRUE)>> >>
   IN IF ver = "4" THEN head \o MetricEntries("4", g, Official4, 1) \o ScoreEntries("4", sc, 1)
      ELSE LET grp == GroupMetrics(ver) IN
           head \o MetricEntries(ver, g, MandOf(ver), 1) \o ScoreEntries(ver, sc, 1)
                \o MetricEntries(ver, g, grp[1], 1) \o ScoreEntries(ver, sc, 2)
                \o MetricEntries(ver, g, grp[2], 1) \o ScoreEntries(ver, sc, 3)
\* minimal document: the groups without a defined metric are left out, with their scores
MinimalDoc(ver, minor, g) ==
   IF ver = "4" THEN FullDoc(ver, minor, g)
   ELSE LET sc == ScoresOf(ver, minor, g)
            grp == GroupMetrics(ver)
            head == << <<"version", "str", SchemaVersion(ver, minor)>>, <<"vectorString", "str", Clean(ver, minor, g, TRUE)>> >>
        IN head \o MetricEntries(ver, g, MandOf(ver), 1) \o ScoreEntries(ver, sc, 1)
                \o (IF GroupDefined(ver, g, grp[1]) THEN MetricEntries(ver, g, grp[1], 1) \o ScoreEntries(ver, sc, 2) ELSE <<>>)
                \o (IF GroupDefined(ver, g, grp[2]) THEN MetricEntries(ver, g, grp[2], 1) \o ScoreEntries(ver, sc, 3) ELSE <<>>)
Sorted(doc) == SortSeq(doc, LAMBDA a, b : StrLess(a[1], b[1]))
SpecDoc(ver, minor, g, sort, minimal) == LET d == IF minimal THEN MinimalDoc(ver, minor, g) ELSE FullDoc(ver, minor, g) IN IF sort THEN Sorted(d) ELSE d
=============================================================================
