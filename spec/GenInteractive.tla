------------------------------ MODULE GenInteractive ------------------------------
(* spec -> code: answer scripts for the builder.  The machine of Interactive.tla is run with a
   per-question answer alphabet (legal values in upper, lower and mixed case and padded, the
   empty answer, junk, a legal value of another metric); the script of answers is carried in a
   history variable and emitted when the session ends (Return, or end of input at any question). *)
EXTENDS MC_Interactive, Json
VARIABLE script
Mixed(s) == IF Len(s) < 2 THEN Lower(s) ELSE Ch(s,1) \o Lower(SubSeq(s,2,Len(s)))
GAnswers(m) == LET vs == ValsOf(VerOf(bver))[m] IN
               UNION {{vs[k], Lower(vs[k]), Mixed(vs[k]), " " \o vs[k] \o "  "} : k \in 1..Len(vs)} \cup {"", "junk", "?", "ND", "X", "High"}
GInit == MCInit /\ script = <<>>
GNext == \/ (st = "choose" /\ asked # AskSet(bver, all) /\ Ask(NextMetric) /\ UNCHANGED script)
         \/ (st = "asking" /\ \E a \in GAnswers(cur) : \E v \in {Select(bver, cur, Strip(a))} : Read(a, v) /\ script' = Append(script, a))
         \/ (EndOfInput /\ UNCHANGED script)
         \/ (Return /\ UNCHANGED script)
GSpec == GInit /\ [][GNext]_<<ivars, script>>
Emit == st \notin {"done","eof"} \/ PrintT("GEN " \o ToJson([bver |-> bver, all |-> all, script |-> script, eof |-> (st = "eof")]))
=============================================================================
