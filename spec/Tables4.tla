------------------------------ MODULE Tables4 ------------------------------
(* CVSS v4.0 tables, transcribed from the FIRST CVSS v4.0 specification document
   (sections 2-4, 7 and 8.2) and the FIRST cvss-v4.0.json schema.
   Nothing in this module is read from the repository under verification.     *)
EXTENDS Integers, Sequences, Tables4Lookup

Base4 == <<"AV","AC","AT","PR","UI","VC","VI","VA","SC","SI","SA">>
Threat4 == <<"E">>
EnvReq4 == <<"CR","IR","AR">>
Modified4 == <<"MAV","MAC","MAT","MPR","MUI","MVC","MVI","MVA","MSC","MSI","MSA">>
Supplemental4 == <<"S","AU","R","V","RE","U">>
Mand4 == Base4
\* the mandatory order of a v4.0 vector string (specification section 7, Table 23;
\* identical to the vectorString pattern of cvss-v4.0.json)
Official4 == Base4 \o Threat4 \o EnvReq4 \o Modified4 \o Supplemental4
\* all metrics (any order; used for membership)
All4 == Official4
ND4 == "X"
BaseOf4 == [MAV |-> "AV", MAC |-> "AC", MAT |-> "AT", MPR |-> "PR", MUI |-> "UI",
            MVC |-> "VC", MVI |-> "VI", MVA |-> "VA", MSC |-> "SC", MSI |-> "SI", MSA |-> "SA"]
ModOf4 == [AV |-> "MAV", AC |-> "MAC", AT |-> "MAT", PR |-> "MPR", UI |-> "MUI",
           VC |-> "MVC", VI |-> "MVI", VA |-> "MVA", SC |-> "MSC", SI |-> "MSI", SA |-> "MSA"]

\* legal values, enumeration order = increasing severity; X last
Vals4 == [ AV |-> <<"P","L","A","N">>, AC |-> <<"H","L">>, AT |-> <<"P","N">>,
           PR |-> <<"H","L","N">>, UI |-> <<"A","P","N">>,
           VC |-> <<"N","L","H">>, VI |-> <<"N","L","H">>, VA |-> <<"N","L","H">>,
           SC |-> <<"N","L","H">>, SI |-> <<"N","L","H">>, SA |-> <<"N","L","H">>,
           E  |-> <<"U","P","A","X">>,
           CR |-> <<"L","M","H","X">>, IR |-> <<"L","M","H","X">>, AR |-> <<"L","M","H","X">>,
           MAV |-> <<"P","L","A","N","X">>, MAC |-> <<"H","L","X">>, MAT |-> <<"P","N","X">>,
           MPR |-> <<"H","L","N","X">>, MUI |-> <<"A","P","N","X">>,
           MVC |-> <<"N","L","H","X">>, MVI |-> <<"N","L","H","X">>, MVA |-> <<"N","L","H","X">>,
           MSC |-> <<"N","L","H","X">>,
           MSI |-> <<"N","L","H","S","X">>, MSA |-> <<"N","L","H","S","X">>,
           S  |-> <<"N","P","X">>, AU |-> <<"N","Y","X">>, R |-> <<"A","U","I","X">>,
           V  |-> <<"D","C","X">>, RE |-> <<"L","M","H","X">>,
           U  |-> <<"Clear","Green","Amber","Red","X">> ]

NDEquiv4 == [E |-> "A", CR |-> "H", IR |-> "H", AR |-> "H"]

\* severity levels (specification section 8.2 / reference implementation): 0 = most severe
LvAV == [N |-> 0, A |-> 1, L |-> 2, P |-> 3]
LvPR == [N |-> 0, L |-> 1, H |-> 2]
LvUI == [N |-> 0, P |-> 1, A |-> 2]
LvAC == [L |-> 0, H |-> 1]
LvAT == [N |-> 0, P |-> 1]
LvV  == [H |-> 0, L |-> 1, N |-> 2]                  \* VC VI VA
LvSC == [H |-> 1, L |-> 2, N |-> 3]
LvS  == [S |-> 0, H |-> 1, L |-> 2, N |-> 3]         \* SI SA (S only through MSI/MSA)
LvR  == [H |-> 0, M |-> 1, L |-> 2]                  \* CR IR AR
LvE  == [A |-> 0, P |-> 1, U |-> 2]

\* highest-severity vectors per equivalence class (specification Table 24-29), as level tuples
\* EQ1 <<AV,PR,UI>>
Max1 == << << <<0,0,0>> >>,
           << <<1,0,0>>, <<0,1,0>>, <<0,0,1>> >>,
           << <<3,0,0>>, <<1,1,1>> >> >>
\* EQ2 <<AC,AT>>
Max2 == << << <<0,0>> >>, << <<1,0>>, <<0,1>> >> >>
\* EQ3+EQ6 <<VC,VI,VA,CR,IR,AR>>
Joint36 == {<<0,0>>,<<0,1>>,<<1,0>>,<<1,1>>,<<2,1>>}
Max36 == [e \in Joint36 |->
   CASE e = <<0,0>> -> << <<0,0,0,0,0,0>> >>
     [] e = <<0,1>> -> << <<0,0,1,1,1,0>>, <<0,0,0,1,1,1>> >>
     [] e = <<1,0>> -> << <<1,0,0,0,0,0>>, <<0,1,0,0,0,0>> >>
     [] e = <<1,1>> -> << <<1,0,1,0,1,0>>, <<1,0,0,0,1,1>>, <<0,1,0,1,0,1>>, <<0,1,1,1,0,0>>,
                          <<1,1,0,0,0,1>> >>
     [] e = <<2,1>> -> << <<1,1,1,0,0,0>> >> ]
\* EQ4 <<SC,SI,SA>>
Max4 == << << <<1,0,0>> >>, << <<1,1,1>> >>, << <<2,2,2>> >> >>
\* depths (max severity distance + 1), specification section 8.2
Depth1 == <<1,4,5>>
Depth2 == <<1,2>>
Depth36 == [e \in Joint36 |->
   CASE e = <<0,0>> -> 7 [] e = <<0,1>> -> 6 [] e = <<1,0>> -> 8 [] e = <<1,1>> -> 8 [] e = <<2,1>> -> 10]
Depth4 == <<6,5,4>>

\* ---- names ------------------------------------------------------------------------------
\* JSON keys of cvss-v4.0.json
JsonKey4 == [ AV |-> "attackVector", AC |-> "attackComplexity", AT |-> "attackRequirements",
              PR |-> "privilegesRequired", UI |-> "userInteraction",
              VC |-> "vulnConfidentialityImpact", VI |-> "vulnIntegrityImpact",
              VA |-> "vulnAvailabilityImpact", SC |-> "subConfidentialityImpact",
              SI |-> "subIntegrityImpact", SA |-> "subAvailabilityImpact",
              E |-> "exploitMaturity", CR |-> "confidentialityRequirement",
              IR |-> "integrityRequirement", AR |-> "availabilityRequirement",
              MAV |-> "modifiedAttackVector", MAC |-> "modifiedAttackComplexity",
              MAT |-> "modifiedAttackRequirements", MPR |-> "modifiedPrivilegesRequired",
              MUI |-> "modifiedUserInteraction", MVC |-> "modifiedVulnConfidentialityImpact",
              MVI |-> "modifiedVulnIntegrityImpact", MVA |-> "modifiedVulnAvailabilityImpact",
              MSC |-> "modifiedSubConfidentialityImpact", MSI |-> "modifiedSubIntegrityImpact",
              MSA |-> "modifiedSubAvailabilityImpact", S |-> "Safety", AU |-> "Automatable",
              R |-> "Recovery", V |-> "valueDensity", RE |-> "vulnerabilityResponseEffort",
              U |-> "providerUrgency" ]

\* key names published by the library under verification for v4.0 (its public JSON interface at
\* the pinned version; they differ from the official schema's keys, which is part of finding F1).
\* Used only by the C11 faithfulness check to tell which field speaks about which metric.
AltKey4 == [ AV |-> "attackVector", AC |-> "attackComplexity", AT |-> "attackRequirement",
             PR |-> "privilegesRequired", UI |-> "userInteraction",
             VC |-> "vulnerableSystemImpactConfidentiality", VI |-> "vulnerableSystemImpactIntegrity",
             VA |-> "vulnerableSystemImpactAvailability", SC |-> "subsequentSystemImpactConfidentiality",
             SI |-> "subsequentSystemImpactIntegrity", SA |-> "subsequentSystemImpactAvailability",
             E |-> "exploitMaturity", CR |-> "confidentialityRequirements",
             IR |-> "integrityRequirements", AR |-> "availabilityRequirements",
             MAV |-> "modifiedAttackVector", MAC |-> "modifiedAttackComplexity",
             MAT |-> "modifiedAttackRequirement", MPR |-> "modifiedPrivilegesRequired",
             MUI |-> "modifiedUserInteraction",
             MVC |-> "modifiedVulnerableSystemImpactConfidentiality",
             MVI |-> "modifiedVulnerableSystemImpactIntegrity",
             MVA |-> "modifiedVulnerableSystemImpactAvailability",
             MSC |-> "modifiedSubsequentSystemImpactConfidentiality",
             MSI |-> "modifiedSubsequentSystemImpactIntegrity",
             MSA |-> "modifiedSubsequentSystemImpactAvailability", S |-> "safety", AU |-> "automatable",
             R |-> "recovery", V |-> "valueDensity", RE |-> "vulnerabilityResponseEffort",
             U |-> "providerUrgency" ]

\* enum names of cvss-v4.0.json
AvName4 == [N |-> "NETWORK", A |-> "ADJACENT", L |-> "LOCAL", P |-> "PHYSICAL", X |-> "NOT_DEFINED"]
AcName4 == [L |-> "LOW", H |-> "HIGH", X |-> "NOT_DEFINED"]
AtName4 == [N |-> "NONE", P |-> "PRESENT", X |-> "NOT_DEFINED"]
PrName4 == [N |-> "NONE", L |-> "LOW", H |-> "HIGH", X |-> "NOT_DEFINED"]
UiName4 == [N |-> "NONE", P |-> "PASSIVE", A |-> "ACTIVE", X |-> "NOT_DEFINED"]
CiaName4 == [N |-> "NONE", L |-> "LOW", H |-> "HIGH", S |-> "SAFETY", X |-> "NOT_DEFINED"]
ReqName4 == [L |-> "LOW", M |-> "MEDIUM", H |-> "HIGH", X |-> "NOT_DEFINED"]
JsonName4 == [ AV |-> AvName4, AC |-> AcName4, AT |-> AtName4, PR |-> PrName4, UI |-> UiName4,
               VC |-> CiaName4, VI |-> CiaName4, VA |-> CiaName4,
               SC |-> CiaName4, SI |-> CiaName4, SA |-> CiaName4,
               E |-> [A |-> "ATTACKED", P |-> "PROOF_OF_CONCEPT", U |-> "UNREPORTED", X |-> "NOT_DEFINED"],
               CR |-> ReqName4, IR |-> ReqName4, AR |-> ReqName4,
               MAV |-> AvName4, MAC |-> AcName4, MAT |-> AtName4, MPR |-> PrName4, MUI |-> UiName4,
               MVC |-> CiaName4, MVI |-> CiaName4, MVA |-> CiaName4,
               MSC |-> CiaName4, MSI |-> CiaName4, MSA |-> CiaName4,
               S |-> [N |-> "NEGLIGIBLE", P |-> "PRESENT", X |-> "NOT_DEFINED"],
               AU |-> [N |-> "NO", Y |-> "YES", X |-> "NOT_DEFINED"],
               R |-> [A |-> "AUTOMATIC", U |-> "USER", I |-> "IRRECOVERABLE", X |-> "NOT_DEFINED"],
               V |-> [D |-> "DIFFUSE", C |-> "CONCENTRATED", X |-> "NOT_DEFINED"],
               RE |-> [L |-> "LOW", M |-> "MODERATE", H |-> "HIGH", X |-> "NOT_DEFINED"],
               U |-> [Clear |-> "CLEAR", Green |-> "GREEN", Amber |-> "AMBER", Red |-> "RED",
                      X |-> "NOT_DEFINED"] ]
\* further spellings of a value that identify it unambiguously (specification-document names,
\* upper-snake-cased): accepted by the C11 faithfulness check, not by the C10 schema check
AltName4 == [ MAV |-> [A |-> "ADJACENT_NETWORK"], AV |-> [A |-> "ADJACENT_NETWORK"],
              E |-> [P |-> "POC"],
              MSC |-> [N |-> "NEGLIGIBLE"], MSI |-> [N |-> "NEGLIGIBLE"], MSA |-> [N |-> "NEGLIGIBLE"] ]

MetricName4 == [ AV |-> "Attack Vector", AC |-> "Attack Complexity", AT |-> "Attack Requirement",
   PR |-> "Privileges Required", UI |-> "User Interaction",
   VC |-> "Vulnerable System Impact Confidentiality", VI |-> "Vulnerable System Impact Integrity",
   VA |-> "Vulnerable System Impact Availability",
   SC |-> "Subsequent System Impact Confidentiality", SI |-> "Subsequent System Impact Integrity",
   SA |-> "Subsequent System Impact Availability",
   S |-> "Safety", AU |-> "Automatable", R |-> "Recovery", V |-> "Value Density",
   RE |-> "Vulnerability Response Effort", U |-> "Provider Urgency",
   MAV |-> "Modified Attack Vector", MAC |-> "Modified Attack Complexity",
   MAT |-> "Modified Attack Requirement", MPR |-> "Modified Privileges Required",
   MUI |-> "Modified User Interaction",
   MVC |-> "Modified Vulnerable System Impact Confidentiality",
   MVI |-> "Modified Vulnerable System Impact Integrity",
   MVA |-> "Modified Vulnerable System Impact Availability",
   MSC |-> "Modified Subsequent System Impact Confidentiality",
   MSI |-> "Modified Subsequent System Impact Integrity",
   MSA |-> "Modified Subsequent System Impact Availability",
   CR |-> "Confidentiality Req", IR |-> "Integrity Req", AR |-> "Availability Req",
   E |-> "Exploit Maturity" ]
=============================================================================
