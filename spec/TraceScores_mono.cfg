SPECIFICATION Spec
INVARIANT Inv

CONSTANT Mode = "mono"
CHECK_DEADLOCK FALSE
