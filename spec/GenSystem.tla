------------------------------ MODULE GenSystem ------------------------------
(* spec -> code generators built from the actions of System.tla; the walk is carried in the
   history variable h and emitted as a GEN line when it is complete.
   Mode "accessors": one finished object, every sequence of at most MaxCalls accessor calls (C18)
   Mode "schedules": every thread has begun one construction; every interleaving of their
                     pipeline steps (C19, forced schedules); an entry of h is the stepping thread
   Mode "history"  : one thread; complete constructions (valid and failing), accessor calls and entry-point
                     calls (interactive builder, calculator main) in any order (C19, API histories)                                      *)
EXTENDS System, Json
CONSTANT Mode
VARIABLE h
gvars == <<vars, h>>
InputList == <<  <<"ok","A","x">>, <<"ok","B","x">>, <<"bad","","y">> >>
ThreadList == CHOOSE q \in [1..Cardinality(Threads) -> Threads] : \A a, b \in DOMAIN q : a # b => q[a] # q[b]
TIndex(t) == CHOOSE k \in DOMAIN ThreadList : ThreadList[k] = t
Obj(i) == Ref(i)
GInit == /\ XInit /\ shared = <<>> /\ cache = <<>> /\ globals = "G0" /\ out = 0 /\ last = <<>> /\ ncalls = 0 /\ h = <<>>
         /\ IF Mode = "accessors" THEN heap = <<Obj(InputList[1])>> /\ thr = [t \in Threads |-> Idle]
            ELSE IF Mode = "schedules" THEN heap = <<>> /\ thr = [t \in Threads |-> [pc |-> 1, in |-> InputList[((TIndex(t) - 1) % 2) + 1], scratch |-> <<>>, scores |-> <<>>]]
            ELSE heap = <<>> /\ thr = [t \in Threads |-> Idle]
AnyStep(t) == StepParse(t) \/ StepMandatory(t) \/ StepFill(t) \/ \E k \in 4..6 : StepScore(t, k)
T1 == ThreadList[1]
\* a complete construction by one thread, as one macro step (history mode)
Construct(i) == /\ Len(heap) < MaxObjs /\ ncalls < MaxCalls
                /\ IF Malformed(i) THEN heap' = heap /\ last' = <<"raise", T1, i>>
                   ELSE heap' = Append(heap, Obj(i)) /\ last' = <<"object", T1, i, RefFilled(i), RefScores(i)>>
                /\ ncalls' = ncalls + 1 /\ UNCHANGED <<thr, shared, cache, globals, out>>
GOldNext == IF Mode = "accessors" THEN \E acc \in Accessors : Call(1, acc) /\ h' = Append(h, acc)
         ELSE IF Mode = "schedules" THEN \E t \in Threads : AnyStep(t) /\ h' = Append(h, TIndex(t))
         ELSE \/ \E k \in 1..Len(InputList) : Construct(InputList[k]) /\ h' = Append(h, <<"new", k>>)
              \/ \E kind \in EntryPoints : EntryPoint(kind) /\ h' = Append(h, <<"entry", kind>>)
              \/ \E o \in 1..MaxObjs : Copy(o) /\ h' = Append(h, <<"copy", o>>)
              \/ \E o \in 1..MaxObjs, acc \in {"scores","clean","rh","json_sm","mutate_json","hash","internals"} : Call(o, acc) /\ h' = Append(h, <<"call", o, acc>>)
GNext == GOldNext /\ UNCHANGED xvars
GSpec == GInit /\ [][GNext]_gvars
Complete == IF Mode = "schedules" THEN \A t \in Threads : thr[t].pc = 0 ELSE h # <<>>
Emit == ~Complete \/ PrintT("GEN " \o ToJson([mode |-> Mode, h |-> h]))
=============================================================================
