------------------------------ MODULE Internals ------------------------------
(* The intermediate quantities of the score computations, which the library exposes as public attributes and methods
   although none of the listed properties mentions them: the v4 effective values m() and the macro vector, the v3 impact /
   exploitability sub-scores (base and modified), the v2 impact equations, and the value descriptions.  Binding them makes
   a disagreement between specification and code visible at the step where it arises, not only in the rounded score.
   Exact decimals are scaled integers (BigInt); the two polynomials with a 13th / 15th power are compared after
   truncation to 12 decimals, within one unit (the library evaluates them in 28-digit decimal arithmetic).          *)
EXTENDS Vector, DisplayTables

\* ---- v4 ------------------------------------------------------------------------------------
M4Metrics == <<"AV","PR","UI","AC","AT","VC","VI","VA","SC","SI","SA","CR","IR","AR","E">>
M4(g, b) == Eff4(g, b)
MacroString(g) == LET mv == Macro(Levels4(g)) IN
                  ToString(mv[1]) \o ToString(mv[2]) \o ToString(mv[3]) \o ToString(mv[4]) \o ToString(mv[5]) \o ToString(mv[6])

\* ---- value descriptions ---------------------------------------------------------------------
DispValsOf(ver) == IF ver = "2" THEN DispVals2 ELSE IF ver = "3" THEN DispVals3 ELSE DispVals4
NameIn(pairs, v) == IF \E k \in 1..Len(pairs) : pairs[k][1] = v THEN pairs[CHOOSE k \in 1..Len(pairs) : pairs[k][1] = v][2] ELSE "?"
\* a modified metric that is absent or Not Defined is described by the value of its base metric (in the modified metric's wording)
DescValue(ver, g, mm) == LET f == Full(ver, g) IN
                         IF f[mm] # NDOf(ver) THEN f[mm]
                         ELSE IF ver = "3" /\ mm \in DOMAIN BaseOf3 THEN f[BaseOf3[mm]]
                         ELSE IF ver = "4" /\ \E b \in DOMAIN ModOf4 : ModOf4[b] = mm THEN f[CHOOSE b \in DOMAIN ModOf4 : ModOf4[b] = mm]
                         ELSE f[mm]
Description(ver, g, mm) == NameIn(DispValsOf(ver)[mm], DescValue(ver, g, mm))
\* the JSON enumeration names of the FIRST schemas are the upper-cased descriptions with blanks and hyphens as underscores
\* (checked as a design fact by MC_Internals for v2 and v3; v4 spells some of them differently: AltName4)

\* ---- v3 ------------------------------------------------------------------------------------
IscBase6(m) == IB6(WCIA3[m.C], WCIA3[m.I], WCIA3[m.A])                                     \* x 10^6
Esc10(m) == ESC10(WAV3[m.AV], WAC3[m.AC], PRW(m.S, m.PR), WUI3[m.UI])                      \* x 10^10
Isc92(m) == ISC30(m.S, IscBase6(m))                                                        \* x 10^92 (both minor versions)
MIscBase6(m) == MIB6(m)
MEsc10(m) == LET ms == Eff3(m,"MS") IN ESC10(WAV3[Eff3(m,"MAV")], WAC3[Eff3(m,"MAC")], PRW(ms, Eff3(m,"MPR")), WUI3[Eff3(m,"MUI")])
MIsc(minor, m) == IF minor = 0 THEN ISC30(Eff3(m,"MS"), MIB6(m)) ELSE ISC31(Eff3(m,"MS"), MIB6(m))
MIscScale(minor) == IF minor = 0 THEN 92 ELSE 132
\* magnitude truncated to 12 decimals
Trunc12(x, S) == NDivPow10(x.m, S - 12)[1]
Near(a, b) == NCmp(a, b) = 0 \/ NCmp(NAdd(a, <<1>>), b) = 0 \/ NCmp(a, NAdd(b, <<1>>)) = 0

\* ---- v2 ------------------------------------------------------------------------------------
Impact2x17(m) == Impact17(m)                     \* x 10^17
AdjImpact2x17(m) == AdjImpact17(m)               \* min(10, ...) x 10^17
=============================================================================
