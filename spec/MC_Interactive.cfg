SPECIFICATION MCSpec
INVARIANT ResultAccepted
INVARIANT OnceEach
PROPERTY Terminates
VIEW View
CHECK_DEADLOCK FALSE
