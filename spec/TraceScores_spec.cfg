SPECIFICATION Spec
INVARIANT Inv

CONSTANT Mode = "spec"
CHECK_DEADLOCK FALSE
