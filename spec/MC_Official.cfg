SPECIFICATION Spec
INVARIANT Inv
CONSTANT W = 16
CHECK_DEADLOCK FALSE
