SPECIFICATION Spec
INVARIANT Inv
CONSTANT Prop = "C08"
CHECK_DEADLOCK FALSE
