------------------------------ MODULE CmdLine ------------------------------
(* The calculator's command-line syntax (argparse conventions), as a function from the argument vector that is typed to the
   normalised argument list the rest of the specification talks about (-2 -3 -4 -a -n -j, "-v" followed by its value):
   clusters of short flags (-aj, -3jn, -jvVALUE), a value attached to -v (-vVALUE) or to --vector (--vector=VALUE), long
   names and their unambiguous abbreviations (--vec, --js, --no, --al).  Anything else is "?": not a command line the
   property speaks about (TraceCli.tla passes over it).                                                             *)
EXTENDS Chars, FiniteSets
LongNames == <<"--all", "--vector", "--no-colors", "--json", "--help">>
ShortFor(l) == CASE l = "--all" -> "-a" [] l = "--vector" -> "-v" [] l = "--no-colors" -> "-n" [] l = "--json" -> "-j" [] OTHER -> "?"
LongMatch(name) == LET c == {k \in 1..Len(LongNames) : StartsWith(LongNames[k], name)} IN
                   IF Len(name) < 3 THEN "?"
                   ELSE IF \E k \in c : LongNames[k] = name THEN name
                   ELSE IF Cardinality(c) = 1 THEN LongNames[CHOOSE k \in c : TRUE] ELSE "?"
Simple == {"2", "3", "4", "a", "n", "j"}
\* the short flags of a cluster before position k (exclusive) of a, from position 2
RECURSIVE Shorts(_,_,_)
Shorts(a, k, upto) == IF k >= upto THEN <<>> ELSE <<"-" \o Ch(a, k)>> \o Shorts(a, k + 1, upto)
\* first position >= 2 whose character is not a simple flag (Len(a)+1 if none)
RECURSIVE FirstOther(_,_)
FirstOther(a, k) == IF k > Len(a) THEN k ELSE IF Ch(a, k) \in Simple THEN FirstOther(a, k + 1) ELSE k
RECURSIVE Normalize(_)
Normalize(argv) ==
   IF argv = <<>> THEN <<>>
   ELSE LET a == argv[1]  rest == Tail(argv) IN
        IF StartsWith(a, "--") THEN
           LET eq == IndexFrom(a, "=", 1)
               name == IF eq = 0 THEN a ELSE SubSeq(a, 1, eq - 1)
               l == LongMatch(name)
           IN IF l = "--vector" THEN (IF eq # 0 THEN <<"-v", SubSeq(a, eq + 1, Len(a))>> \o Normalize(rest)
                                      ELSE IF rest = <<>> THEN <<"?">>
                                      ELSE <<"-v", rest[1]>> \o Normalize(Tail(rest)))
              ELSE IF l \in {"?", "--help"} \/ eq # 0 THEN <<"?">> \o Normalize(rest)
              ELSE <<ShortFor(l)>> \o Normalize(rest)
        ELSE IF StartsWith(a, "-") /\ Len(a) >= 2 THEN
           LET p == FirstOther(a, 2) IN
           IF p > Len(a) THEN Shorts(a, 2, p) \o Normalize(rest)
           ELSE IF Ch(a, p) # "v" THEN <<"?">> \o Normalize(rest)
           \* value attached; argparse reads "-v=VALUE" as VALUE, and what it does with "=" after v inside a cluster has changed between
           \* interpreter versions: the lone option strips one "=", a cluster followed by "=" is left out
           ELSE IF p < Len(a) /\ Ch(a, p + 1) = "=" THEN (IF p = 2 THEN <<"-v", SubSeq(a, p + 2, Len(a))>> \o Normalize(rest) ELSE <<"?">> \o Normalize(rest))
           ELSE IF p < Len(a) THEN Shorts(a, 2, p) \o <<"-v", SubSeq(a, p + 1, Len(a))>> \o Normalize(rest)
           ELSE IF rest = <<>> THEN <<"?">>
           ELSE Shorts(a, 2, p) \o <<"-v", rest[1]>> \o Normalize(Tail(rest))
        ELSE <<"?">> \o Normalize(rest)
=============================================================================
