------------------------------ MODULE TracePipeline ------------------------------
(* Batched validation of step-level constructor traces (drivers/pipeline.py) against Pipeline.tla:
   every recorded step must be the next pipeline action, raise exactly when the action raises, and leave the
   object's metric map, original map, minor version and scores exactly as the action says.            *)
EXTENDS Pipeline, Json, IOUtils, TLC, TraceData
Traces == TraceData
VARIABLES tid, l
tvars == <<tid, l, pvars>>
Tr == Traces[tid]
HasEv == l <= Len(Tr.steps)
Ev == Tr.steps[l]
AsMap(pairs) == [m \in {pairs[k][1] : k \in 1..Len(pairs)} |-> pairs[CHOOSE k \in 1..Len(pairs) : pairs[k][1] = m][2]]
TInit == tid \in 1..Len(Traces) /\ l = 1 /\ PInit(Traces[tid].ver, Traces[tid].s)
\* binding of the logged projection to the primed state
Matches == /\ Ev.step = Cur
           /\ Ev.raised = (pstate' = "raised")
           /\ AsMap(Ev.metrics) = metrics'
           /\ (Ev.has_original => AsMap(Ev.original) = original')
           /\ (~Ev.has_original => original' = <<"none">>)
           /\ Ev.minor = pminor'
           /\ Ev.scores = pscores'
TStep(A) == HasEv /\ A /\ Matches /\ l' = l + 1 /\ UNCHANGED tid
TNext == TStep(ParseVector) \/ TStep(CheckMandatory) \/ TStep(HandleScope) \/ TStep(AddMissingOptional)
         \/ TStep(ComputeBase) \/ TStep(ComputeTemporal) \/ TStep(ComputeEnvironmental) \/ TStep(ComputeSeverity)
TSpec == TInit /\ [][TNext]_tvars
\* accepted: all events consumed, the machine has ended, and the outcome is the recorded one
Accepted == /\ l = Len(Tr.steps) + 1 /\ pstate \in {"done","raised"}
            /\ (pstate = "done") = (Tr.out.cls = "ok")
Report == Accepted => PrintT("ACC " \o ToString(tid))
Stuck == (~Accepted /\ ~ENABLED TNext) => PrintT("REJ " \o ToString(tid) \o " at " \o ToString(l) \o " " \o (IF pstate = "running" THEN Cur ELSE pstate))
=============================================================================
