------------------------------ MODULE Score4 ------------------------------
(* CVSS v4.0 scoring (specification section 8: macrovector, lookup, severity-distance
   interpolation) in exact integer arithmetic.
   A vector is the tuple of severity levels of its 15 effective scoring metrics
       a == <<AV,PR,UI, AC,AT, VC,VI,VA, SC,SI,SA, CR,IR,AR, E>>
   (levels as in Tables4: 0 = most severe; SC in 1..3; SI/SA in 0..3 with 0 = Safety).
   The result is in tenths.                                                             *)
EXTENDS Integers, Sequences, TLC, FiniteSets, Tables4

Dom(m, v) == \A i \in 1..Len(m): v[i] >= m[i]
RECURSIVE SumDiff(_,_,_)
SumDiff(m, v, i) == IF i = 0 THEN 0 ELSE (v[i] - m[i]) + SumDiff(m, v, i-1)
HasDom(list, v) == \E i \in 1..Len(list): Dom(list[i], v)
FirstDomIdx(list, v) == CHOOSE i \in 1..Len(list): Dom(list[i], v) /\ \A j \in 1..(i-1): ~Dom(list[j], v)
FirstDom(list, v) == list[FirstDomIdx(list, v)]
Dist(list, v) == LET m == FirstDom(list, v) IN SumDiff(m, v, Len(m))

EQ1(av,pr,ui) == IF av=0 /\ pr=0 /\ ui=0 THEN 0 ELSE IF (av=0 \/ pr=0 \/ ui=0) /\ av # 3 THEN 1 ELSE 2
EQ2(ac,at) == IF ac=0 /\ at=0 THEN 0 ELSE 1
EQ3(vc,vi,va) == IF vc=0 /\ vi=0 THEN 0 ELSE IF vc=0 \/ vi=0 \/ va=0 THEN 1 ELSE 2
EQ4(sc,si,sa) == IF si=0 \/ sa=0 THEN 0 ELSE IF sc=1 \/ si=1 \/ sa=1 THEN 1 ELSE 2
EQ6(vc,vi,va,cr,ir,ar) == IF (cr=0 /\ vc=0) \/ (ir=0 /\ vi=0) \/ (ar=0 /\ va=0) THEN 0 ELSE 1
Macro(a) == <<EQ1(a[1],a[2],a[3]), EQ2(a[4],a[5]), EQ3(a[6],a[7],a[8]), EQ4(a[9],a[10],a[11]),
              a[15], EQ6(a[6],a[7],a[8],a[12],a[13],a[14])>>
Has(mv) == mv \in DOMAIN Lookup4
NoImpact(a) == a[6]=2 /\ a[7]=2 /\ a[8]=2 /\ a[9]=3 /\ a[10]=3 /\ a[11]=3

\* the pieces of the interpolation, exposed for the design invariants
Pieces(a) ==
  LET mv == Macro(a)
      e1 == mv[1] e2 == mv[2] e3 == mv[3] e4 == mv[4] e5 == mv[5] e6 == mv[6]
      V == Lookup4[mv]
      l1 == <<e1+1,e2,e3,e4,e5,e6>>
      l2 == <<e1,e2+1,e3,e4,e5,e6>>
      l4 == <<e1,e2,e3,e4+1,e5,e6>>
      l5 == <<e1,e2,e3,e4,e5+1,e6>>
      l36a == <<e1,e2,e3+1,e4,e5,e6>>
      l36b == <<e1,e2,e3,e4,e5,e6+1>>
      Has36 == IF e3 = 0 /\ e6 = 0 THEN Has(l36a) \/ Has(l36b)
               ELSE IF e3 = 1 /\ e6 = 0 THEN Has(l36b)
               ELSE IF e6 = 1 /\ e3 < 2 THEN Has(l36a) ELSE FALSE
      Low36 == IF e3 = 0 /\ e6 = 0 THEN
                  (IF Has(l36a) /\ Has(l36b) THEN (IF Lookup4[l36a] > Lookup4[l36b] THEN Lookup4[l36a] ELSE Lookup4[l36b])
                   ELSE IF Has(l36a) THEN Lookup4[l36a] ELSE Lookup4[l36b])
               ELSE IF e3 = 1 /\ e6 = 0 THEN Lookup4[l36b] ELSE Lookup4[l36a]
      v1 == <<a[1],a[2],a[3]>>  v2 == <<a[4],a[5]>>  v36 == <<a[6],a[7],a[8],a[12],a[13],a[14]>>
      v4 == <<a[9],a[10],a[11]>>
      d1 == Dist(Max1[e1+1], v1)
      d2 == Dist(Max2[e2+1], v2)
      d36 == Dist(Max36[<<e3,e6>>], v36)
      d4 == Dist(Max4[e4+1], v4)
      M1 == Depth1[e1+1] M2 == Depth2[e2+1] M36 == Depth36[<<e3,e6>>] M4 == Depth4[e4+1]
      n == (IF Has(l1) THEN 1 ELSE 0) + (IF Has(l2) THEN 1 ELSE 0) + (IF Has36 THEN 1 ELSE 0)
           + (IF Has(l4) THEN 1 ELSE 0) + (IF Has(l5) THEN 1 ELSE 0)
      Den == n * M1 * M2 * M36 * M4
      S == (IF Has(l1) THEN (V - Lookup4[l1]) * d1 * M2 * M36 * M4 ELSE 0)
         + (IF Has(l2) THEN (V - Lookup4[l2]) * d2 * M1 * M36 * M4 ELSE 0)
         + (IF Has36 THEN (V - Low36) * d36 * M1 * M2 * M4 ELSE 0)
         + (IF Has(l4) THEN (V - Lookup4[l4]) * d4 * M1 * M2 * M36 ELSE 0)
      gaps == (IF Has(l1) THEN {V - Lookup4[l1]} ELSE {}) \cup (IF Has(l2) THEN {V - Lookup4[l2]} ELSE {})
              \cup (IF Has36 THEN {V - Low36} ELSE {}) \cup (IF Has(l4) THEN {V - Lookup4[l4]} ELSE {})
              \cup (IF Has(l5) THEN {V - Lookup4[l5]} ELSE {})
  IN [V |-> V, n |-> n, Den |-> Den, Num |-> V * Den - S, gaps |-> gaps,
      d |-> <<d1,d2,d36,d4>>, M |-> <<M1,M2,M36,M4>>]

\* the score itself, computing only what it needs (Pieces(a) above exposes the same quantities
\* for the design invariants; MC_Score4 checks the two agree)
Lk(mv) == IF mv \in DOMAIN Lookup4 THEN Lookup4[mv] ELSE -1
Score4(a) ==
  IF NoImpact(a) THEN 0
  ELSE
  LET e1 == EQ1(a[1],a[2],a[3]) e2 == EQ2(a[4],a[5]) e3 == EQ3(a[6],a[7],a[8]) e4 == EQ4(a[9],a[10],a[11])
      e5 == a[15] e6 == EQ6(a[6],a[7],a[8],a[12],a[13],a[14])
      V == Lookup4[<<e1,e2,e3,e4,e5,e6>>]
      s1 == Lk(<<e1+1,e2,e3,e4,e5,e6>>)
      s2 == Lk(<<e1,e2+1,e3,e4,e5,e6>>)
      s4 == Lk(<<e1,e2,e3,e4+1,e5,e6>>)
      s5 == Lk(<<e1,e2,e3,e4,e5+1,e6>>)
      sa == Lk(<<e1,e2,e3+1,e4,e5,e6>>)
      sb == Lk(<<e1,e2,e3,e4,e5,e6+1>>)
      s36 == IF e3 = 0 /\ e6 = 0 THEN (IF sa > sb THEN sa ELSE sb)
             ELSE IF e3 = 1 /\ e6 = 0 THEN sb
             ELSE IF e6 = 1 /\ e3 < 2 THEN sa ELSE -1
      M1 == Depth1[e1+1] M2 == Depth2[e2+1] M36 == Depth36[<<e3,e6>>] M4 == Depth4[e4+1]
      n == (IF s1 >= 0 THEN 1 ELSE 0) + (IF s2 >= 0 THEN 1 ELSE 0) + (IF s36 >= 0 THEN 1 ELSE 0)
           + (IF s4 >= 0 THEN 1 ELSE 0) + (IF s5 >= 0 THEN 1 ELSE 0)
      Den == n * M1 * M2 * M36 * M4
      S == (IF s1 >= 0 THEN (V - s1) * Dist(Max1[e1+1], <<a[1],a[2],a[3]>>) * M2 * M36 * M4 ELSE 0)
         + (IF s2 >= 0 THEN (V - s2) * Dist(Max2[e2+1], <<a[4],a[5]>>) * M1 * M36 * M4 ELSE 0)
         + (IF s36 >= 0 THEN (V - s36) * Dist(Max36[<<e3,e6>>], <<a[6],a[7],a[8],a[12],a[13],a[14]>>) * M1 * M2 * M4 ELSE 0)
         + (IF s4 >= 0 THEN (V - s4) * Dist(Max4[e4+1], <<a[9],a[10],a[11]>>) * M1 * M2 * M36 ELSE 0)
  IN IF n = 0 THEN V
     ELSE LET r == (2*(V * Den - S) + Den) \div (2*Den) IN IF r < 0 THEN 0 ELSE IF r > 100 THEN 100 ELSE r
Score4ViaPieces(a) ==
  IF NoImpact(a) THEN 0
  ELSE LET p == Pieces(a) IN
       IF p.n = 0 THEN p.V
       ELSE LET r == (2*p.Num + p.Den) \div (2*p.Den) IN IF r < 0 THEN 0 ELSE IF r > 100 THEN 100 ELSE r

\* ---- design invariants (checked by MC_Score4 over all 15 116 544 level tuples) ----------------
RowExists(a) == Has(Macro(a))
Dominated(a) == LET mv == Macro(a) IN
                /\ HasDom(Max1[mv[1]+1], <<a[1],a[2],a[3]>>)
                /\ HasDom(Max2[mv[2]+1], <<a[4],a[5]>>)
                /\ HasDom(Max36[<<mv[3],mv[6]>>], <<a[6],a[7],a[8],a[12],a[13],a[14]>>)
                /\ HasDom(Max4[mv[4]+1], <<a[9],a[10],a[11]>>)
GapsNonNegative(a) == NoImpact(a) \/ \A g \in Pieces(a).gaps : g >= 0
DistanceWithinDepth(a) == NoImpact(a) \/ LET p == Pieces(a) IN \A i \in 1..4 : p.d[i] >= 0 /\ p.d[i] < p.M[i]
\* distance of the exact pre-rounding value to a rounding tie is 0 or at least 1/(2*Den) of a tenth,
\* and Den <= 12000, so a float evaluation plus EPSILON = 1e-6 cannot round differently
TieMarginOK(a) == NoImpact(a) \/ LET p == Pieces(a) IN p.n = 0 \/ (p.Den > 0 /\ p.Den <= 12000)
InRange(a) == Score4(a) \in 0..100
=============================================================================
