SPECIFICATION Spec
INVARIANT Inv
CONSTANT Prop = "C12"
CHECK_DEADLOCK FALSE
