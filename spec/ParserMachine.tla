------------------------------ MODULE ParserMachine ------------------------------
(* The constructors' parsing pipeline as an operational machine, in the implementation's step
   order (one step per check the code makes), including the text of the error it raises:
     empty -> trailing "/" -> prefix -> per field: empty, split on ":", [v2/v3: metric known,
     value legal, duplicate | v4: duplicate, metric known, value legal] -> mandatory metrics.
   Vector.tla's Parse is the declarative grammar; this module is what step-level observations
   (and the exact exception messages) bind to.  Refinement - the machine's outcome class equals
   Classify for every string - is checked by TLC on every string of the C04 corpus
   (TraceEvents, clause "machine-refines-grammar") and by MC_Parser on all strings of a
   bounded edit neighbourhood.
   Text travels in the escaped form of Chars.tla; a double quote is the escape {34}.          *)
EXTENDS Vector
Q == "{34}"
VName(ver) == "CVSS" \o ver
\* machine state: pc, index of the next field, metrics seen so far (set, and <<metric, value>> in input order), outcome
MInit(ver, s) == [pc |-> "empty", ver |-> ver, s |-> s, k |-> 1, seen |-> {}, got |-> <<>>, cls |-> "", msg |-> ""]
Fail(st, c, m) == [st EXCEPT !.pc = "done", !.cls = c, !.msg = m]
FieldsM(st) == Split(DropPrefix(st.s, PrefixLen(st.ver, st.s)), "/")
RECURSIVE MissingList(_,_,_)
MissingList(mand, seen, k) == IF k > Len(mand) THEN <<>>
                              ELSE (IF mand[k] \in seen THEN <<>> ELSE <<mand[k]>>) \o MissingList(mand, seen, k+1)
MStep(st) ==
   LET ver == st.ver  s == st.s IN
   CASE st.pc = "empty" -> IF s = "" THEN Fail(st, "malformed", "Malformed " \o VName(ver) \o " vector, vector is empty")
                           ELSE [st EXCEPT !.pc = "trailing"]
     [] st.pc = "trailing" -> IF EndsWith(s, "/") THEN Fail(st, "malformed", "Malformed " \o VName(ver) \o " vector, trailing " \o Q \o "/" \o Q)
                              ELSE [st EXCEPT !.pc = "prefix"]
     [] st.pc = "prefix" -> IF PrefixLen(ver, s) < 0
                            THEN Fail(st, "malformed", "Malformed " \o VName(ver) \o " vector " \o Q \o s \o Q \o " is missing mandatory prefix or uses unsupported CVSS version")
                            ELSE [st EXCEPT !.pc = "field"]
     [] st.pc = "field" ->
          LET fs == FieldsM(st) IN
          IF st.k > Len(fs) THEN [st EXCEPT !.pc = "mandatory"]
          ELSE LET f == fs[st.k]  p == Split(f, ":") IN
               IF f = "" THEN Fail(st, "malformed", "Empty field in " \o VName(ver) \o " vector " \o Q \o s \o Q)
               ELSE IF Len(p) # 2 THEN Fail(st, "malformed", "Malformed " \o VName(ver) \o " field " \o Q \o f \o Q)
               ELSE LET m == p[1]  v == p[2]
                        known == m \in MetricsOf(ver)
                        legal == known /\ InSeq(v, ValsOf(ver)[m])
                        dup == m \in st.seen
                    IN IF ver = "4"
                       THEN (IF dup THEN Fail(st, "malformed", "Duplicate metric " \o Q \o m \o Q)
                             ELSE IF ~known THEN Fail(st, "malformed", "Invalid metric key in CVSS4 vector " \o Q \o f \o Q)
                             ELSE IF ~legal THEN Fail(st, "malformed", "Invalid metric value in CVSS4 vector " \o Q \o f \o Q)
                             ELSE [st EXCEPT !.k = st.k + 1, !.seen = st.seen \cup {m}, !.got = Append(st.got, <<m, v>>)])
                       ELSE (IF ~known THEN Fail(st, "malformed", "Unknown metric " \o Q \o m \o Q \o " in field " \o Q \o f \o Q)
                             ELSE IF ~legal THEN Fail(st, "malformed", "Unknown value " \o Q \o v \o Q \o " in field " \o Q \o f \o Q)
                             ELSE IF dup THEN Fail(st, "malformed", "Duplicate metric " \o Q \o m \o Q)
                             ELSE [st EXCEPT !.k = st.k + 1, !.seen = st.seen \cup {m}, !.got = Append(st.got, <<m, v>>)])
     [] st.pc = "mandatory" ->
          LET miss == MissingList(MandOf(ver), st.seen, 1) IN
          IF miss # <<>> THEN Fail(st, "mandatory", "Missing mandatory metrics " \o Q \o Join(miss, ", ") \o Q)
          ELSE [st EXCEPT !.pc = "done", !.cls = "ok"]
     [] OTHER -> st
RECURSIVE MRun(_)
MRun(st) == IF st.pc = "done" THEN st ELSE MRun(MStep(st))
Machine(ver, s) == MRun(MInit(ver, s))
=============================================================================
