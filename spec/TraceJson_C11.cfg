SPECIFICATION Spec
INVARIANT Inv
CONSTANT Prop = "C11"
CHECK_DEADLOCK FALSE
