SPECIFICATION TSpec
INVARIANT Report
INVARIANT Stuck
CONSTANT CheckPattern = FALSE
CONSTANT CheckText = FALSE
CHECK_DEADLOCK FALSE
