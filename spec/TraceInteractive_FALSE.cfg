SPECIFICATION TSpec
INVARIANT Report
INVARIANT Stuck
CONSTANT CheckPattern = FALSE
CHECK_DEADLOCK FALSE
