SPECIFICATION Spec
INVARIANT Emit
CONSTANT K = 4
CHECK_DEADLOCK FALSE
