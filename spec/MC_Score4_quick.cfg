SPECIFICATION Spec
INVARIANT InvRowExists
INVARIANT InvDominated
INVARIANT InvGaps
INVARIANT InvDistance
INVARIANT InvTie
INVARIANT InvRange
INVARIANT InvAgree
CONSTANT N = 300000
CONSTANT W = 64
CHECK_DEADLOCK FALSE
