------------------------------ MODULE BigInt ------------------------------
(* Arbitrary-precision integers for exact decimal arithmetic (TLC integers are 32-bit).
   Naturals: little-endian limb sequences base 10^4, no high zero limbs; 0 = <<>>.
   Signed integers: [n |-> negative?, m |-> natural].                              *)
EXTENDS Integers, Sequences
B == 10000
RECURSIVE Trim(_)
Trim(a) == IF a = <<>> THEN a ELSE IF a[Len(a)] = 0 THEN Trim(SubSeq(a,1,Len(a)-1)) ELSE a
RECURSIVE NatOf(_)
NatOf(n) == IF n = 0 THEN <<>> ELSE <<n % B>> \o NatOf(n \div B)
Limb(a,i) == IF i <= Len(a) THEN a[i] ELSE 0
RECURSIVE NAddC(_,_,_,_)
NAddC(a,b,i,c) == IF i > Len(a) /\ i > Len(b) THEN (IF c = 0 THEN <<>> ELSE <<c>>)
                  ELSE LET s == Limb(a,i)+Limb(b,i)+c IN <<s % B>> \o NAddC(a,b,i+1,s \div B)
NAdd(a,b) == NAddC(a,b,1,0)
RECURSIVE NCmpI(_,_,_)
NCmpI(a,b,i) == IF i = 0 THEN 0 ELSE IF a[i] > b[i] THEN 1 ELSE IF a[i] < b[i] THEN -1 ELSE NCmpI(a,b,i-1)
NCmp(a,b) == IF Len(a) > Len(b) THEN 1 ELSE IF Len(a) < Len(b) THEN -1 ELSE NCmpI(a,b,Len(a))
RECURSIVE NSubB(_,_,_,_)
NSubB(a,b,i,br) == IF i > Len(a) THEN <<>>
                   ELSE LET d == a[i] - Limb(b,i) - br
                        IN IF d < 0 THEN <<d + B>> \o NSubB(a,b,i+1,1) ELSE <<d>> \o NSubB(a,b,i+1,0)
NSub(a,b) == Trim(NSubB(a,b,1,0))     \* requires a >= b
RECURSIVE NMulSC(_,_,_,_)
NMulSC(a,m,i,c) == IF i > Len(a) THEN (IF c = 0 THEN <<>> ELSE <<c>>)
                   ELSE LET s == a[i]*m+c IN <<s % B>> \o NMulSC(a,m,i+1,s \div B)
NMulS(a,m) == IF m = 0 THEN <<>> ELSE NMulSC(a,m,1,0)     \* 0 <= m < B
RECURSIVE NMulR(_,_,_)
NMulR(a,b,j) == IF j > Len(b) THEN <<>>
                ELSE LET r == NMulR(a,b,j+1) IN NAdd(NMulS(a,b[j]), IF r = <<>> THEN <<>> ELSE <<0>> \o r)
NMul(a,b) == IF a = <<>> \/ b = <<>> THEN <<>> ELSE Trim(NMulR(a,b,1))
RECURSIVE Zeros(_)
Zeros(k) == IF k = 0 THEN <<>> ELSE <<0>> \o Zeros(k-1)
P10(r) == CASE r = 0 -> 1 [] r = 1 -> 10 [] r = 2 -> 100 [] r = 3 -> 1000
NShift10(a,k) == IF a = <<>> THEN <<>> ELSE Zeros(k \div 4) \o NMulS(a, P10(k % 4))   \* a * 10^k
\* long division by a small number 0 < m < B, from the top limb: <<quotient, remainder>>
RECURSIVE NDivSR(_,_,_,_)
NDivSR(a,m,i,r) == IF i = 0 THEN <<<<>>, r>>
                   ELSE LET cur == r*B + a[i]  q == cur \div m  rest == NDivSR(a,m,i-1,cur % m)
                        IN <<rest[1] \o <<q>>, rest[2]>>
NDivS(a,m) == LET x == NDivSR(a,m,Len(a),0) IN <<Trim(x[1]), x[2]>>
\* <<floor(a / 10^k), remainder is non-zero>>
AnyNZ(a,n) == \E i \in 1..n : i <= Len(a) /\ a[i] # 0
NDivPow10(a,k) == LET w == k \div 4  hi == IF w >= Len(a) THEN <<>> ELSE SubSeq(a,w+1,Len(a))
                      d == NDivS(hi, P10(k % 4))
                  IN <<d[1], AnyNZ(a,w) \/ d[2] # 0>>
\* value of a natural known to be < 2^31
RECURSIVE NVal(_,_)
NVal(a,i) == IF i > Len(a) THEN 0 ELSE a[i] + B * NVal(a,i+1)
I(neg,m) == [n |-> (neg /\ m # <<>>), m |-> m]
IOf(k) == IF k < 0 THEN I(TRUE, NatOf(-k)) ELSE I(FALSE, NatOf(k))
INeg(a) == I(~a.n, a.m)
IAdd(a,b) == IF a.n = b.n THEN I(a.n, NAdd(a.m,b.m))
             ELSE IF NCmp(a.m,b.m) >= 0 THEN I(a.n, NSub(a.m,b.m)) ELSE I(b.n, NSub(b.m,a.m))
ISub(a,b) == IAdd(a, INeg(b))
IMul(a,b) == I(a.n # b.n, NMul(a.m,b.m))
IMulS(a,k) == IMul(a, IOf(k))
IShift10(a,k) == I(a.n, NShift10(a.m,k))
ICmp(a,b) == IF a.n /\ ~b.n THEN -1 ELSE IF ~a.n /\ b.n THEN 1 ELSE IF a.n THEN NCmp(b.m,a.m) ELSE NCmp(a.m,b.m)
RECURSIVE IPow(_,_)
IPow(a,e) == IF e = 0 THEN IOf(1) ELSE IMul(a, IPow(a,e-1))
IMin(a,b) == IF ICmp(a,b) <= 0 THEN a ELSE b
IZero(a) == a.m = <<>>
\* ceil(a / 10^k) for a >= 0, as a small integer
CeilDivPow10(a,k) == LET d == NDivPow10(a.m,k) IN NVal(d[1],1) + (IF d[2] THEN 1 ELSE 0)
\* distance of a >= 0 (at scale 10^k per unit) to the nearest multiple of 10^k, compared with
\* 10^(k-j): TRUE iff a is an exact multiple or at least 10^(k-j) away from one on both sides
=============================================================================
