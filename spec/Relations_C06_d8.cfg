SPECIFICATION Spec
INVARIANT Emit
INVARIANT StaysValid
CONSTANT Depth = 8
CONSTANT Family = "C06"
CONSTANT Dense = TRUE
CHECK_DEADLOCK FALSE
