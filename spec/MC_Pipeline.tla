------------------------------ MODULE MC_Pipeline ------------------------------
(* Design check: the constructor pipeline of Pipeline.tla, started on every string of the bounded edit
   neighbourhood of MC_Parser and for all three constructors, always terminates, ends in an object exactly
   when the declarative grammar accepts the string, and then carries the scores of the score functions.   *)
EXTENDS Pipeline, TLC
Alphabet == <<"A","V",":","/","N","X","L","C","3","."," ","a">>
Seeds == << "AV:N/AC:L/Au:N/C:P/I:P/A:C/E:ND", "CVSS:3.1/AV:N/AC:L/PR:L/UI:N/S:U/C:H/I:H/A:N/MS:C/E:X",
            "CVSS:4.0/AV:N/AC:L/AT:N/PR:N/UI:N/VC:H/VI:H/VA:H/SC:N/SI:N/SA:N/E:A/MSI:S" >>
Edits(s) == {s} \cup {SubSeq(s,1,k-1) \o SubSeq(s,k+1,Len(s)) : k \in 1..Len(s)}
            \cup {SubSeq(s,1,k-1) \o Alphabet[a] \o SubSeq(s,k+1,Len(s)) : k \in 1..Len(s), a \in 1..Len(Alphabet)}
MCPInit == \E q \in 1..Len(Seeds) : \E s \in Edits(Seeds[q]) : \E ver \in Versions : PInit(ver, s)
MCPSpec == MCPInit /\ [][PNext]_pvars /\ WF_pvars(PNext)
Terminates == <>(pstate \in {"done","raised"})
ScoresWhenDone == pstate = "done" => LET sc == ScoresOf(pver, pminor, Written) IN
                     pscores = (IF pver = "4" THEN <<sc[1], -1, -1>> ELSE sc)
=============================================================================
