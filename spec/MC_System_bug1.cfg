SPECIFICATION MCSpec
INVARIANT ObjectsAreFunctionsOfInput
INVARIANT GlobalsUntouched
INVARIANT ResultsDependOnInputOnly
INVARIANT AccessorResultsAreFunctionsOfTheObject
PROPERTY AccessorsArePure
CONSTANTS
  Threads = {t1, t2}
  Inputs <- InputsDef
  MaxObjs = 2
  MaxCalls = 4
  BugSharedScratch = TRUE
  BugCache = FALSE
  BugAccessorMutates = FALSE
  BugJsonAlias = FALSE
  BugEntryPointWritesTables = FALSE
  BugCopyDiffers = FALSE
  BugMemoPublishedEarly = FALSE
  BugCacheIgnoresContext = FALSE
CHECK_DEADLOCK FALSE
