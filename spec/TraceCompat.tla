------------------------------ MODULE TraceCompat ------------------------------
(* C20: identical behaviour on every supported interpreter.  The specification is deterministic,
   so for one input there is one allowed observation; the reference interpreter's trace stands for
   it.  An event pairs, for one input and one interpreter, the reference observation `ref` with
   the observation `got` made under that interpreter (both records with the same fields; values
   the property does not regard as output - the key order of an unsorted dict, the order of the
   list built from a set - are put in sorted order by the harness).  The verdict names the first
   field that differs.                                                                      *)
EXTENDS Sequences, Integers, TLC, Json, IOUtils, FiniteSets, TraceData
T == TraceData
VARIABLES i, ph
Init == i \in 1..Len(T) /\ ph = 0
Next == ph = 0 /\ ph' = 1 /\ i' = i
Spec == Init /\ [][Next]_<<i, ph>>
CompatVerdict(e) ==
   IF e.ref = e.got THEN "ok"
   ELSE IF DOMAIN e.ref # DOMAIN e.got THEN "fields-differ"
   ELSE LET bad == {f \in DOMAIN e.ref : e.ref[f] # e.got[f]} IN "differs-in-" \o ToString(bad)
Inv == ph = 0 \/ LET v == CompatVerdict(T[i]) IN v = "ok" \/ PrintT("FAIL " \o ToString(i) \o " " \o v)
=============================================================================
