SPECIFICATION MCPSpec
INVARIANT PipelineRefinesGrammar
INVARIANT ScoresWhenDone
PROPERTY Terminates
CHECK_DEADLOCK FALSE
