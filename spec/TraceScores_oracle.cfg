SPECIFICATION Spec
INVARIANT Inv

CONSTANT Mode = "oracle"
CHECK_DEADLOCK FALSE
