------------------------------ MODULE MC_Official ------------------------------
(* Design check: the specification's parser and score functions against the official
   calculator vectors pinned under /verif/data/official (FIRST calculators / cvsslib / NVD).
   An error in my transcription of the standards is caught here, independently of the code. *)
EXTENDS Vector, Json, IOUtils, TraceData
CONSTANT W
T == TraceData
VARIABLE i
Init == i \in 1..W
Next == i + W <= Len(T) /\ i' = i + W
Verdict(e) == LET p == Parse(e.ver, e.s) IN
              IF p.cls # "ok" THEN "parse:" \o p.cls
              ELSE IF ScoresOf(e.ver, p.minor, p.given) = e.exp THEN "ok" ELSE "score"
Inv == LET v == Verdict(T[i]) IN v = "ok" \/ PrintT("FAIL " \o ToString(i) \o " " \o v)
Spec == Init /\ [][Next]_i
=============================================================================
