------------------------------ MODULE Interactive ------------------------------
(* The interactive vector builder (ask_interactively) as a state machine.
   bver \in {"2","3.0","3.1","4.0"}: requested version; all: ask optional metrics too.
   The builder asks each metric of the selected set exactly once; a question is repeated until
   the answer selects a legal value (case-insensitively; the empty answer selects Not Defined
   where that is legal); end of input while a question is open raises EOFError; after the last
   metric it returns prefix + accepted answers joined by "/".                            *)
EXTENDS Vector, FiniteSets
BVersions == {"2","3.0","3.1","4.0"}
VerOf(bver) == IF bver = "2" THEN "2" ELSE IF bver = "4.0" THEN "4" ELSE "3"
MinorOfB(bver) == IF bver = "3.0" THEN 0 ELSE IF bver = "3.1" THEN 1 ELSE -1
AskSet(bver, all) == IF all THEN MetricsOf(VerOf(bver)) ELSE MandSetOf(VerOf(bver))
\* the legal value selected by an answer that carries no surrounding blanks, "" if none
Select(bver, m, a) == LET ver == VerOf(bver)
                          n == IF a = "" THEN NDOf(ver) ELSE Upper(a)
                          vs == ValsOf(ver)[m]
                          hit == {k \in 1..Len(vs) : Upper(vs[k]) = n}
                      IN IF hit = {} THEN "" ELSE vs[CHOOSE k \in hit : TRUE]
\* outcomes the property allows for an answer: blanks around an answer are not regulated by the
\* property (the implementation strips them), so a padded answer may be treated either way
Outcomes(bver, m, a) == IF Strip(a) = a THEN {Select(bver, m, a)} ELSE {Select(bver, m, Strip(a)), ""}

VARIABLES bver, all, asked, accepted, cur, st, result
ivars == <<bver, all, asked, accepted, cur, st, result>>
IInit(v, a) == bver = v /\ all = a /\ asked = {} /\ accepted = <<>> /\ cur = "" /\ st = "choose" /\ result = ""
\* the builder opens the question for a metric not asked yet
Ask(m) == st = "choose" /\ m \in AskSet(bver, all) \ asked /\ cur' = m /\ st' = "asking" /\ UNCHANGED <<bver, all, asked, accepted, result>>
\* it reads one answer: accept (value v) or repeat the question (v = "")
Read(a, v) == /\ st = "asking" /\ v \in Outcomes(bver, cur, a)
              /\ IF v # "" THEN /\ accepted' = Append(accepted, cur \o ":" \o v) /\ asked' = asked \cup {cur}
                                /\ st' = "choose" /\ cur' = ""
                 ELSE UNCHANGED <<accepted, asked, st, cur>>
              /\ UNCHANGED <<bver, all, result>>
EndOfInput == st = "asking" /\ st' = "eof" /\ UNCHANGED <<bver, all, asked, accepted, cur, result>>
Return == /\ st = "choose" /\ asked = AskSet(bver, all)
          /\ result' = PrefixStr(VerOf(bver), MinorOfB(bver)) \o Join(accepted, "/") /\ st' = "done"
          /\ UNCHANGED <<bver, all, asked, accepted, cur>>
\* ---- properties of the machine (checked by MC_Interactive) ------------------------------------
ResultAccepted == st = "done" => Classify(VerOf(bver), result) = "ok" /\ MinorOf(VerOf(bver), result) = MinorOfB(bver)
OnceEach == Len(accepted) = Cardinality(asked) /\ asked \subseteq AskSet(bver, all)
=============================================================================
