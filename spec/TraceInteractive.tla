------------------------------ MODULE TraceInteractive ------------------------------
(* Batched trace validation of recorded sessions of the interactive builder against the machine
   of Interactive.tla.  Traces: sequence of [bver, all, events]; an event is
     [ev |-> "Read", prompt, answer]   one input() call that returned `answer`
     [ev |-> "Eof", how, prompt]       one input() call broken off: how = "eof" (end of input) or "interrupt" (Ctrl-C)
     [ev |-> "EofError", exc]          ask_interactively raised EOFError / KeyboardInterrupt (exc)
     [ev |-> "Return", value]          ask_interactively returned `value`
     [ev |-> "Raise", exc]             it raised something else
   The prompt (last line printed before the read) tells which metric the question is about.
   CheckPattern = TRUE additionally demands of every returned string the official vectorString
   pattern of its version (C08).                                                            *)
EXTENDS InteractiveText, Json, IOUtils, TLC, TraceData
CONSTANTS CheckPattern,
          CheckText        \* TRUE: also demand the exact text shown before every read and the asking order (beyond the property)
Traces == TraceData
VARIABLES tid, l
tvars == <<tid, l, bver, all, asked, accepted, cur, st, result>>
Tr == Traces[tid]
HasEv == l <= Len(Tr.events)
Ev == Tr.events[l]
NameTab(v) == IF v = "2" THEN MetricName2 ELSE IF v = "3" THEN MetricName3 ELSE MetricName4
Names(m, prompt) == LET n == NameTab(VerOf(bver))[m] IN StartsWith(prompt, n \o ":") \/ StartsWith(prompt, n \o ".:")
TInit == /\ tid \in 1..Len(Traces) /\ l = 1
         /\ IInit(Traces[tid].bver, Traces[tid].all)
Consume == l' = l + 1 /\ UNCHANGED tid
\* a question is opened exactly when a read happens in state "choose": compose Ask with the read
OpenIfNeeded(m) == IF st = "choose" THEN m \in AskSet(bver, all) \ asked ELSE (st = "asking" /\ m = cur)
\* exact text (only with CheckText): what was written since the previous read, and the library's asking order
TextOk(m) == ~CheckText \/
   /\ Ev.shown = (IF st = "asking" THEN ShownRepeat(bver, m)
                  ELSE IF asked = {} THEN ShownFirst(bver, m, Tr.colours) ELSE ShownNext(bver, m, Tr.colours))
   /\ (st = "choose" => LET o == AskOrderOf(bver) IN
                          m = o[CHOOSE k \in 1..Len(o) : o[k] \in AskSet(bver, all) \ asked /\ \A j \in 1..(k-1) : o[j] \notin AskSet(bver, all) \ asked])
TRead == /\ HasEv /\ Ev.ev = "Read" /\ st \in {"choose","asking"}
         /\ \E m \in AskSet(bver, all) : /\ Names(m, Ev.prompt) /\ OpenIfNeeded(m) /\ TextOk(m)
               /\ \E v \in Outcomes(bver, m, Ev.answer) :
                     IF v # "" THEN /\ accepted' = Append(accepted, m \o ":" \o v) /\ asked' = asked \cup {m}
                                    /\ st' = "choose" /\ cur' = ""
                     ELSE /\ st' = "asking" /\ cur' = m /\ UNCHANGED <<accepted, asked>>
         /\ Consume /\ UNCHANGED <<bver, all, result>>
TEof == /\ HasEv /\ Ev.ev = "Eof" /\ st \in {"choose","asking"}
        /\ \E m \in AskSet(bver, all) : Names(m, Ev.prompt) /\ OpenIfNeeded(m) /\ TextOk(m) /\ cur' = m
        /\ st' = "eof" /\ Consume /\ UNCHANGED <<bver, all, asked, accepted, result>>
\* the exception that broke the read off (EOFError at end of input, KeyboardInterrupt at Ctrl-C) is the one that leaves the builder
TEofError == /\ HasEv /\ Ev.ev = "EofError" /\ st = "eof" /\ st' = "done" /\ Consume
             /\ l > 1 /\ Tr.events[l-1].ev = "Eof" /\ Ev.exc = (IF Tr.events[l-1].how = "interrupt" THEN "KeyboardInterrupt" ELSE "EOFError")
             /\ UNCHANGED <<bver, all, asked, accepted, cur, result>>
TReturn == /\ HasEv /\ Ev.ev = "Return" /\ st = "choose" /\ asked = AskSet(bver, all)
           /\ Ev.value = PrefixStr(VerOf(bver), MinorOfB(bver)) \o Join(accepted, "/")
           /\ Classify(VerOf(bver), Ev.value) = "ok"
           /\ (CheckPattern => OfficialPattern(PatternVersion(VerOf(bver), MinorOfB(bver)), Ev.value))
           /\ result' = Ev.value /\ st' = "done" /\ Consume /\ UNCHANGED <<bver, all, asked, accepted, cur>>
TNext == TRead \/ TEof \/ TEofError \/ TReturn
TSpec == TInit /\ [][TNext]_tvars
Accepted == st = "done" /\ l = Len(Tr.events) + 1
Report == Accepted => PrintT("ACC " \o ToString(tid))
Stuck == (~Accepted /\ ~ENABLED TNext) => PrintT("REJ " \o ToString(tid) \o " at " \o ToString(l) \o " st=" \o st \o " cur=" \o cur)
=============================================================================
