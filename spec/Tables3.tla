------------------------------ MODULE Tables3 ------------------------------
(* CVSS v3.0 / v3.1 tables, transcribed from the FIRST specification documents
   (section 7.4 "Metric Values") and the FIRST cvss-v3.0.json / cvss-v3.1.json schemas.
   Nothing in this module is read from the repository under verification.     *)
EXTENDS Integers, Sequences

Order3 == <<"AV","AC","PR","UI","S","C","I","A","E","RL","RC","CR","IR","AR",
            "MAV","MAC","MPR","MUI","MS","MC","MI","MA">>
Mand3  == <<"AV","AC","PR","UI","S","C","I","A">>
Temporal3 == <<"E","RL","RC">>
Environmental3 == <<"CR","IR","AR","MAV","MAC","MPR","MUI","MS","MC","MI","MA">>
Modified3 == <<"MAV","MAC","MPR","MUI","MS","MC","MI","MA">>
ND3 == "X"
\* base metric of a modified metric
BaseOf3 == [MAV |-> "AV", MAC |-> "AC", MPR |-> "PR", MUI |-> "UI", MS |-> "S",
            MC |-> "C", MI |-> "I", MA |-> "A"]

\* legal values in enumeration order (increasing severity; X last)
Vals3 == [ AV  |-> <<"P","L","A","N">>,
           AC  |-> <<"H","L">>,
           PR  |-> <<"H","L","N">>,
           UI  |-> <<"R","N">>,
           S   |-> <<"U","C">>,
           C   |-> <<"N","L","H">>,
           I   |-> <<"N","L","H">>,
           A   |-> <<"N","L","H">>,
           E   |-> <<"U","P","F","H","X">>,
           RL  |-> <<"O","T","W","U","X">>,
           RC  |-> <<"U","R","C","X">>,
           CR  |-> <<"L","M","H","X">>,
           IR  |-> <<"L","M","H","X">>,
           AR  |-> <<"L","M","H","X">>,
           MAV |-> <<"P","L","A","N","X">>,
           MAC |-> <<"H","L","X">>,
           MPR |-> <<"H","L","N","X">>,
           MUI |-> <<"R","N","X">>,
           MS  |-> <<"U","C","X">>,
           MC  |-> <<"N","L","H","X">>,
           MI  |-> <<"N","L","H","X">>,
           MA  |-> <<"N","L","H","X">> ]

\* weights x100 ; requirement weights x10
WAV3  == [N |-> 85, A |-> 62, L |-> 55, P |-> 20]
WAC3  == [L |-> 77, H |-> 44]
WPRU3 == [N |-> 85, L |-> 62, H |-> 27]      \* Scope / Modified Scope Unchanged
WPRC3 == [N |-> 85, L |-> 68, H |-> 50]      \* Scope / Modified Scope Changed
WUI3  == [N |-> 85, R |-> 62]
WCIA3 == [H |-> 56, L |-> 22, N |-> 0]
WE3   == [X |-> 100, H |-> 100, F |-> 97, P |-> 94, U |-> 91]
WRL3  == [X |-> 100, U |-> 100, W |-> 97, T |-> 96, O |-> 95]
WRC3  == [X |-> 100, C |-> 100, R |-> 96, U |-> 92]
WREQ3 == [X |-> 10, H |-> 15, M |-> 10, L |-> 5]

NDEquiv3 == [E |-> "H", RL |-> "U", RC |-> "C", CR |-> "M", IR |-> "M", AR |-> "M"]

\* severity rank (C14); larger is more severe; X has no rank
Cia3 == [N |-> 1, L |-> 2, H |-> 3]
Rank3 == [ AV |-> [P |-> 1, L |-> 2, A |-> 3, N |-> 4],
           AC |-> [H |-> 1, L |-> 2],
           PR |-> [H |-> 1, L |-> 2, N |-> 3],
           UI |-> [R |-> 1, N |-> 2],
           S  |-> [U |-> 1, C |-> 2],
           C  |-> Cia3, I |-> Cia3, A |-> Cia3,
           E  |-> [U |-> 1, P |-> 2, F |-> 3, H |-> 4],
           RL |-> [O |-> 1, T |-> 2, W |-> 3, U |-> 4],
           RC |-> [U |-> 1, R |-> 2, C |-> 3],
           CR |-> [L |-> 1, M |-> 2, H |-> 3],
           IR |-> [L |-> 1, M |-> 2, H |-> 3],
           AR |-> [L |-> 1, M |-> 2, H |-> 3],
           MAV |-> [P |-> 1, L |-> 2, A |-> 3, N |-> 4],
           MAC |-> [H |-> 1, L |-> 2],
           MPR |-> [H |-> 1, L |-> 2, N |-> 3],
           MUI |-> [R |-> 1, N |-> 2],
           MS  |-> [U |-> 1, C |-> 2],
           MC |-> Cia3, MI |-> Cia3, MA |-> Cia3 ]

JsonKey3 == [ AV |-> "attackVector", AC |-> "attackComplexity", PR |-> "privilegesRequired",
              UI |-> "userInteraction", S |-> "scope", C |-> "confidentialityImpact",
              I |-> "integrityImpact", A |-> "availabilityImpact",
              E |-> "exploitCodeMaturity", RL |-> "remediationLevel", RC |-> "reportConfidence",
              CR |-> "confidentialityRequirement", IR |-> "integrityRequirement",
              AR |-> "availabilityRequirement", MAV |-> "modifiedAttackVector",
              MAC |-> "modifiedAttackComplexity", MPR |-> "modifiedPrivilegesRequired",
              MUI |-> "modifiedUserInteraction", MS |-> "modifiedScope",
              MC |-> "modifiedConfidentialityImpact", MI |-> "modifiedIntegrityImpact",
              MA |-> "modifiedAvailabilityImpact" ]

AvName3  == [N |-> "NETWORK", A |-> "ADJACENT_NETWORK", L |-> "LOCAL", P |-> "PHYSICAL", X |-> "NOT_DEFINED"]
AcName3  == [L |-> "LOW", H |-> "HIGH", X |-> "NOT_DEFINED"]
PrName3  == [N |-> "NONE", L |-> "LOW", H |-> "HIGH", X |-> "NOT_DEFINED"]
UiName3  == [N |-> "NONE", R |-> "REQUIRED", X |-> "NOT_DEFINED"]
ScName3  == [U |-> "UNCHANGED", C |-> "CHANGED", X |-> "NOT_DEFINED"]
CiaName3 == [N |-> "NONE", L |-> "LOW", H |-> "HIGH", X |-> "NOT_DEFINED"]
ReqName3 == [L |-> "LOW", M |-> "MEDIUM", H |-> "HIGH", X |-> "NOT_DEFINED"]
JsonName3 == [ AV |-> AvName3, AC |-> AcName3, PR |-> PrName3, UI |-> UiName3, S |-> ScName3,
               C |-> CiaName3, I |-> CiaName3, A |-> CiaName3,
               E  |-> [U |-> "UNPROVEN", P |-> "PROOF_OF_CONCEPT", F |-> "FUNCTIONAL", H |-> "HIGH",
                       X |-> "NOT_DEFINED"],
               RL |-> [O |-> "OFFICIAL_FIX", T |-> "TEMPORARY_FIX", W |-> "WORKAROUND",
                       U |-> "UNAVAILABLE", X |-> "NOT_DEFINED"],
               RC |-> [U |-> "UNKNOWN", R |-> "REASONABLE", C |-> "CONFIRMED", X |-> "NOT_DEFINED"],
               CR |-> ReqName3, IR |-> ReqName3, AR |-> ReqName3,
               MAV |-> AvName3, MAC |-> AcName3, MPR |-> PrName3, MUI |-> UiName3, MS |-> ScName3,
               MC |-> CiaName3, MI |-> CiaName3, MA |-> CiaName3 ]

MetricName3 == [ AV |-> "Attack Vector", AC |-> "Attack Complexity", PR |-> "Privileges Required",
                 UI |-> "User Interaction", S |-> "Scope", C |-> "Confidentiality",
                 I |-> "Integrity", A |-> "Availability", E |-> "Exploit Code Maturity",
                 RL |-> "Remediation Level", RC |-> "Report Confidence",
                 CR |-> "Confidentiality Req", IR |-> "Integrity Req", AR |-> "Availability Req",
                 MAV |-> "Modified Attack Vector", MAC |-> "Modified Attack Complexity",
                 MPR |-> "Modified Privileges Required", MUI |-> "Modified User Interaction",
                 MS |-> "Modified Scope", MC |-> "Modified Confidentiality",
                 MI |-> "Modified Integrity", MA |-> "Modified Availability" ]
=============================================================================
