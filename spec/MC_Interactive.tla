------------------------------ MODULE MC_Interactive ------------------------------
(* Design check of the builder machine: for every version and mode and every answer script over
   a small per-metric alphabet (a legal value in upper / lower case / padded, the empty answer,
   junk), asking in the standard's order, the machine asks each metric once, returns only
   grammatical vectors of the requested version, and every legal value of every metric is
   selectable (SelectableAll).  With WF on accepting answers it always terminates.        *)
EXTENDS Interactive, TLC
AnswersFor(m) == LET vs == ValsOf(VerOf(bver))[m] IN
                 {vs[1], Lower(vs[Len(vs)]), " " \o vs[1], "", "junk"}
Order(v) == OrderOf(VerOf(v))
NextMetric == LET o == Order(bver) IN o[CHOOSE k \in 1..Len(o) : o[k] \in AskSet(bver, all) \ asked /\ \A j \in 1..(k-1) : o[j] \notin AskSet(bver, all) \ asked]
MCInit == \E v \in BVersions, a \in BOOLEAN : IInit(v, a)
MCNext == \/ (st = "choose" /\ asked # AskSet(bver, all) /\ Ask(NextMetric))
          \/ (st = "asking" /\ \E a \in AnswersFor(cur) : \E v \in Outcomes(bver, cur, a) : Read(a, v))
          \/ EndOfInput
          \/ Return
MCSpec == MCInit /\ [][MCNext]_ivars /\ WF_ivars(st = "asking" /\ \E a \in {ValsOf(VerOf(bver))[cur][1]} : Read(a, a)) /\ WF_ivars(Return)
                 /\ WF_ivars(st = "choose" /\ asked # AskSet(bver, all) /\ Ask(NextMetric))
\* only the last accepted answer matters for what can follow: keep the state space small
View == <<bver, all, asked, cur, st, IF accepted = <<>> THEN "" ELSE accepted[Len(accepted)], result = "">>
Terminates == <>(st \in {"done","eof"})
\* every legal value of every metric can be selected by some answer
SelectableAll == \A v \in BVersions : \A m \in MetricsOf(VerOf(v)) : \A k \in 1..Len(ValsOf(VerOf(v))[m]) :
                    Select(v, m, ValsOf(VerOf(v))[m][k]) = ValsOf(VerOf(v))[m][k]
ASSUME SelectableAll
=============================================================================
