SPECIFICATION Spec
INVARIANT Emit
CONSTANT Pieces <- PiecesDef
CONSTANT MaxPieces = 3
CHECK_DEADLOCK FALSE
