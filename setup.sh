#!/bin/sh
# Offline setup: syntax-check every specification module and run a 10-second smoke check.
set -e
cd /verif/spec
for f in *.tla; do
  java -cp /opt/veriftools/tla/tla2tools.jar:/opt/veriftools/tla/CommunityModules-deps.jar tla2sany.SANY "$f" > /tmp/sany.$$ 2>&1 || { cat /tmp/sany.$$; exit 1; }
  if grep -q "Semantic errors\|Fatal errors\|Could not parse" /tmp/sany.$$; then cat /tmp/sany.$$; rm -f /tmp/sany.$$; exit 1; fi
done
rm -f /tmp/sany.$$
mkdir -p /verif/evidence /verif/out /verif/.work
python3-vt -c "import jsonschema, hypothesis" 
/venv/bin/python -c "import sys; sys.path.insert(0,'/repo'); import cvss"
echo "setup ok"
