#!/bin/sh
# run every quick (or $1) check, print one line each
tier=${1:-quick}
for p in C01 C02 C03 C04 C05 C06 C07 C08 C09 C10 C11 C12 C13 C14 C15 C16 C17 C18 C19 C20; do
  s=$(date +%s); out=$(./check $p --tier $tier 2>&1); rc=$?; e=$(date +%s)
  echo "$p rc=$rc $((e-s))s :: $(echo "$out" | grep -E "^$p|VIOLATION|MACHINERY" | head -3 | tr '\n' ' ' | cut -c1-220)"
done
