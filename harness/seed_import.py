#!/usr/bin/env python3
"""seed_import.py <name> <dir> <prop> [props...]: confirm an independently written breaking change,
run the named quick checks against it, and file it under /verif/seeded/<name>/ (patch.diff, demo.py, meta.json)."""
import sys, os, json, subprocess, shutil
name, d, props = sys.argv[1], os.path.abspath(sys.argv[2]), sys.argv[3:]
# make sure the tree is exactly HEAD + patch.diff (sub-agents sharing a repository can leave stray edits behind)
if os.path.exists(os.path.join(d, ".git")):
    subprocess.run(["git", "checkout", "--", "cvss"], cwd=d, check=True)
    subprocess.run(["git", "apply", "patch.diff"], cwd=d, check=True)
r = subprocess.run([sys.executable, os.path.join(os.path.dirname(os.path.abspath(__file__)), "seedcheck.py"), d] + props, stdout=subprocess.PIPE)
res = json.loads(r.stdout.decode())
meta = json.load(open(os.path.join(d, "meta.json")))
out = os.path.join("/verif/seeded", name)
os.makedirs(out, exist_ok=True)
shutil.copy(os.path.join(d, "patch.diff"), out)
shutil.copy(os.path.join(d, "demo.py"), out)
meta2 = {
    "property": meta.get("property"),
    "summary": meta.get("summary"),
    "needs_to_manifest": meta.get("needs"),
    "author": "independent sub-agent given only the property text and a scratch worktree (nothing from /verif)",
    "confirmed_by_me": {
        "pinned_tests_with_change": res["tests_with_change"],
        "demo_exit_with_change": res["demo_rc_with_change"],
        "demo_exit_on_repo": res["demo_rc_without_change"],
        "how": "harness/seedcheck.py: pytest with PYTHONPATH=<patched tree>; demo.py against the patched tree and (copied elsewhere) against /repo",
    },
    "confirmed": res["confirmed"],
    "checks_run": dict((p, {"exit": v["rc"], "caught": v["rc"] == 1, "first_violation": (v["violations"][1].strip()[:300] if len(v["violations"]) > 1 else "")}) for p, v in res["checks"].items()),
    "how_run": "CVSS_REPO=<patched tree> ./check <id> --tier quick (equivalent to git -C /repo apply patch.diff; ./check ...; git -C /repo checkout -- .)",
}
json.dump(meta2, open(os.path.join(out, "meta.json"), "w"), indent=1)
print(name, "confirmed" if res["confirmed"] else "NOT CONFIRMED", dict((p, v["rc"]) for p, v in res["checks"].items()))
