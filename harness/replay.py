# -*- coding: utf-8 -*-
"""./check <id> --replay <file>: re-run the failing case of a replay file against the current working
tree of /repo and have TLC judge it again (exit 1 with a VIOLATION line if it still fails, else 0)."""
import json, os, re
from common import Check, scratch_dir, rm, tlc_or_die, MachineryError, esc
from props.strings import record_events

TRACE = {"C04": ("TraceEvents", "TraceEvents_C04.cfg", "events.py"), "C07": ("TraceEvents", "TraceEvents_C07.cfg", "events.py"),
         "C08": ("TraceEvents", "TraceEvents_C08.cfg", "events.py"), "C12": ("TraceEvents", "TraceEvents_C12.cfg", "events.py"),
         "C15": ("TraceEvents", "TraceEvents_C15.cfg", "events.py"), "C10": ("TraceJson", "TraceJson_C10.cfg", "events.py"),
         "C11": ("TraceJson", "TraceJson_C11.cfg", "events.py"), "C13": ("TraceText", "TraceText.cfg", "events.py"),
         "C05": ("TraceWalks", "TraceWalks.cfg", "events.py"), "C06": ("TraceWalks", "TraceWalks.cfg", "events.py"),
         "C17": ("TraceCli", "TraceCli.cfg", "cli.py")}


def run(prop, path):
    d = json.load(open(path))
    print("replay of %s: key=%s" % (path, d.get("key")))
    print("  recorded: %s" % (d.get("what") or "")[:600])
    rp = d.get("replay") or {}
    work = scratch_dir("replay")
    try:
        item = None
        if rp.get("driver") and rp.get("list_key"):
            # a call that did not return: the same input goes to the same driver again, under the same watchdog (DoesNotReturn is
            # turned into the VIOLATION line by main.py)
            from common import run_driver
            job = dict(rp.get("job_rest") or {})
            job[rp["list_key"]] = [rp["item"]]
            job["out"] = os.path.join(work, "replayed.json")
            job["warm"] = False
            run_driver(rp["driver"], [job], work, name="replay")
            print("  the call returns now")
            return 0
        if prop in ("C01", "C02", "C03", "C14") and rp.get("vector"):
            ver = {"C01": "3", "C02": "4", "C03": "2"}.get(prop) or ("2" if not rp["vector"].startswith("CVSS") else rp["vector"][5])
            ev = record_events([{"op": "construct", "ver": ver, "s": esc(rp["vector"]), "json": False}], work)
            print("  now: %s scores=%s" % (rp["vector"], ev[0]["out"].get("scores")))
            from props.scores import official_trace
            p = os.path.join(work, "one.json")
            json.dump([{"ver": ver, "s": rp["vector"], "exp": ev[0]["out"].get("scores", [])}], open(p, "w"))
            r = tlc_or_die("MC_Official", env={"TRACE_FILE": p}, workers=1)
            bad = [l for l in r.lines if l.startswith("FAIL")]
            if bad:
                print("VIOLATION property=%s replay=%s" % (prop, path))
                print("  detail: specification disagrees with the reported scores: %s" % bad[0])
                return 1
            print("  the specification now agrees with the reported scores")
            return 0
        if prop in TRACE and isinstance(rp.get("event"), dict) and ("op" in rp["event"] or "args" in rp["event"]):
            module, cfg, script = TRACE[prop]
            e = rp["event"]
            if "args" in e:
                item = {"args": e["args"], "stdin": e.get("stdin", [])}
            else:
                item = dict((k, e[k]) for k in ("op", "ver", "s", "text", "items", "strings", "ops", "minor") if k in e)
                item["json"] = prop in ("C10", "C11")
            ev = record_events([item], work, script=script)
            p = os.path.join(work, "one.json")
            json.dump(ev, open(p, "w"))
            r = tlc_or_die(module, cfg=cfg, env={"TRACE_FILE": p}, workers=1)
            bad = [l for l in r.lines if l.startswith("FAIL")]
            if bad:
                print("VIOLATION property=%s replay=%s" % (prop, path))
                print("  detail: %s" % bad[0][:600])
                return 1
            print("  the case is accepted by the specification now")
            return 0
        print("  (no single-case re-run is implemented for this kind of replay file; re-run ./check %s --tier %s with VERIF_SEED=%s)"
              % (prop, d.get("tier", "quick"), d.get("seed", 0)))
        return 0
    finally:
        rm(work)
