# -*- coding: utf-8 -*-
"""Input generators for the string-level checks (seeded; the harness's choices only - every
verdict about them is TLC's)."""
import random, itertools
from common import esc

ORDER = {
    "2": ["AV", "AC", "Au", "C", "I", "A", "E", "RL", "RC", "CDP", "TD", "CR", "IR", "AR"],
    "3": ["AV", "AC", "PR", "UI", "S", "C", "I", "A", "E", "RL", "RC", "CR", "IR", "AR",
          "MAV", "MAC", "MPR", "MUI", "MS", "MC", "MI", "MA"],
    "4": ["AV", "AC", "AT", "PR", "UI", "VC", "VI", "VA", "SC", "SI", "SA", "E", "CR", "IR", "AR",
          "MAV", "MAC", "MAT", "MPR", "MUI", "MVC", "MVI", "MVA", "MSC", "MSI", "MSA",
          "S", "AU", "R", "V", "RE", "U"],
}
MAND = {"2": ORDER["2"][:6], "3": ORDER["3"][:8], "4": ORDER["4"][:11]}
VALS = {
    "2": {"AV": ["L", "A", "N"], "AC": ["H", "M", "L"], "Au": ["M", "S", "N"], "C": ["N", "P", "C"], "I": ["N", "P", "C"],
          "A": ["N", "P", "C"], "E": ["U", "POC", "F", "H", "ND"], "RL": ["OF", "TF", "W", "U", "ND"],
          "RC": ["UC", "UR", "C", "ND"], "CDP": ["N", "L", "LM", "MH", "H", "ND"], "TD": ["N", "L", "M", "H", "ND"],
          "CR": ["L", "M", "H", "ND"], "IR": ["L", "M", "H", "ND"], "AR": ["L", "M", "H", "ND"]},
    "3": {"AV": list("NALP"), "AC": list("LH"), "PR": list("NLH"), "UI": list("NR"), "S": list("UC"), "C": list("HLN"),
          "I": list("HLN"), "A": list("HLN"), "E": list("XHFPU"), "RL": list("XUWTO"), "RC": list("XCRU"),
          "CR": list("XHML"), "IR": list("XHML"), "AR": list("XHML"), "MAV": list("XNALP"), "MAC": list("XLH"),
          "MPR": list("XNLH"), "MUI": list("XNR"), "MS": list("XUC"), "MC": list("XHLN"), "MI": list("XHLN"),
          "MA": list("XHLN")},
    "4": {"AV": list("NALP"), "AC": list("LH"), "AT": list("NP"), "PR": list("NLH"), "UI": list("NPA"),
          "VC": list("HLN"), "VI": list("HLN"), "VA": list("HLN"), "SC": list("HLN"), "SI": list("HLN"), "SA": list("HLN"),
          "E": list("XAPU"), "CR": list("XHML"), "IR": list("XHML"), "AR": list("XHML"), "MAV": list("XNALP"),
          "MAC": list("XLH"), "MAT": list("XNP"), "MPR": list("XNLH"), "MUI": list("XNPA"), "MVC": list("XHLN"),
          "MVI": list("XHLN"), "MVA": list("XHLN"), "MSC": list("XHLN"), "MSI": list("XSHLN"), "MSA": list("XSHLN"),
          "S": list("XNP"), "AU": list("XNY"), "R": list("XAUI"), "V": list("XDC"), "RE": list("XLMH"),
          "U": ["X", "Clear", "Green", "Amber", "Red"]},
}
ND = {"2": "ND", "3": "X", "4": "X"}


def prefix(ver, minor):
    return "" if ver == "2" else ("CVSS:3.%d/" % minor if ver == "3" else "CVSS:4.0/")


def random_assignment(rnd, ver, p_opt=None, p_nd=0.2):
    """metric -> value for all mandatory metrics and a random subset of optional ones."""
    if p_opt is None:
        p_opt = rnd.choice([0.0, 0.15, 0.5, 0.9, 1.0])
    g = {}
    for m in ORDER[ver]:
        if m in MAND[ver]:
            g[m] = rnd.choice(VALS[ver][m])
        elif rnd.random() < p_opt:
            if rnd.random() < p_nd:
                g[m] = ND[ver]
            else:
                g[m] = rnd.choice([v for v in VALS[ver][m] if v != ND[ver]])
    return g


def spell(ver, minor, g, order=None):
    order = order or ORDER[ver]
    return prefix(ver, minor) + "/".join("%s:%s" % (m, g[m]) for m in order if m in g)


GROUPS = {"2": [ORDER["2"][:6], ORDER["2"][6:9], ORDER["2"][9:]],
          "3": [ORDER["3"][:8], ORDER["3"][8:11], ORDER["3"][11:14], ORDER["3"][14:]],
          "4": [ORDER["4"][:11], ["E"], ["CR", "IR", "AR"], ORDER["4"][15:26], ORDER["4"][26:]]}


def some_order(rnd, ver, g):
    """field order: canonical, uniformly shuffled, or one of the *structured* orders a person or a tool would produce (reversed,
    alphabetical, metric groups permuted with the order inside each group kept) - order assumptions hide behind those"""
    canon = [m for m in ORDER[ver] if m in g]
    k = rnd.random()
    if k < 0.3:
        return canon
    if k < 0.6:
        o = list(canon)
        rnd.shuffle(o)
        return o
    if k < 0.68:
        return canon[::-1]
    if k < 0.76:
        return sorted(canon)
    groups = [list(x) for x in GROUPS[ver]]
    head, rest = groups[0], groups[1:]
    rnd.shuffle(rest)
    if rnd.random() < 0.2:
        rest.insert(rnd.randrange(len(rest) + 1), head)
        head = []
    return [m for grp in [head] + rest for m in grp if m in g]


def random_vector(rnd, ver, shuffle=0.5, **kw):
    g = random_assignment(rnd, ver, **kw)
    if rnd.random() < 0.3:                      # no explicit Not Defined at all
        g = dict((m, v) for m, v in g.items() if v != ND[ver])
    minor = rnd.choice([0, 1]) if ver == "3" else -1
    return ver, minor, g, spell(ver, minor, g, some_order(rnd, ver, g))


def covering_vectors(rnd, ver):
    """Every metric with every value at least once; every group-presence shape."""
    out = []
    for m in ORDER[ver]:
        for v in VALS[ver][m]:
            g = random_assignment(rnd, ver, p_opt=rnd.choice([0.0, 0.5]))
            g[m] = v
            minor = rnd.choice([0, 1]) if ver == "3" else -1
            order = list(g)
            rnd.shuffle(order)
            out.append((ver, minor, g, spell(ver, minor, g, order)))
    groups = {"2": [ORDER["2"][6:9], ORDER["2"][9:]], "3": [ORDER["3"][8:11], ORDER["3"][11:]],
              "4": [["E"], ORDER["4"][12:26], ORDER["4"][26:]]}[ver]
    for mask in itertools.product([0, 1, 2], repeat=len(groups)):      # absent / all ND / defined
        g = random_assignment(rnd, ver, p_opt=0.0)
        for k, grp in enumerate(groups):
            for m in grp:
                if mask[k] == 1:
                    g[m] = ND[ver]
                elif mask[k] == 2:
                    g[m] = rnd.choice([v for v in VALS[ver][m] if v != ND[ver]])
        minor = rnd.choice([0, 1]) if ver == "3" else -1
        out.append((ver, minor, g, spell(ver, minor, g)))
    return out


def extremal_vectors(rnd, ver):
    """boundary inputs: the shortest and the longest spellings a version admits (all metrics written with their longest /
    shortest values, optional metrics all Not Defined, ...), in canonical and in shuffled order"""
    out = []
    for pick in (max, min):
        for optional in ("all", "nd", "none"):
            g = {}
            for m in ORDER[ver]:
                vals = [v for v in VALS[ver][m]]
                if m in MAND[ver]:
                    g[m] = pick(vals, key=len)
                elif optional == "all":
                    g[m] = pick([v for v in vals if v != ND[ver]] + ([ND[ver]] if pick is max and len(ND[ver]) >= max(len(v) for v in vals) else []), key=len)
                elif optional == "nd":
                    g[m] = ND[ver]
            for minor in ([0, 1] if ver == "3" else [-1]):
                out.append((ver, minor, g, spell(ver, minor, g)))
                o = list(g)
                rnd.shuffle(o)
                out.append((ver, minor, g, spell(ver, minor, g, o)))
    # the longest possible spelling: every metric with (one of) its longest value(s), ties broken both ways
    if True:
        for tie in (0, -1):
            g = {}
            for m in ORDER[ver]:
                L = max(len(v) for v in VALS[ver][m])
                g[m] = [v for v in VALS[ver][m] if len(v) == L][tie]
            for minor in ([0, 1] if ver == "3" else [-1]):
                out.append((ver, minor, g, spell(ver, minor, g)))
    return out


_LOOKUP_COVER = {}


def lookup_cover_v4(rnd, seed=0):
    """spec -> code: K = 4 vectors for every row of the v4 lookup table, generated by TLC (MC_GenV4.tla) from the preimages of the macro
    vector under the specification's EQ functions; each effective value is written through the base metric or (seeded) through the
    modified metric over another base value.  Returns (ver, minor, g, string, spec score in tenths)."""
    from common import run_tlc, parse_gen, MachineryError
    if seed not in _LOOKUP_COVER:
        r = run_tlc("MC_GenV4", workers=1, timeout=900, seed=seed + 1)
        gen = [parse_gen(l) for l in r.lines if l.startswith("GEN ")]
        if not r.ok or len(gen) != 270 * 4:
            raise MachineryError("MC_GenV4 produced %d vectors (%s)" % (len(gen), r.error))
        _LOOKUP_COVER[seed] = gen
    out = []
    for x in _LOOKUP_COVER[seed]:
        g = {}
        for b, v in x["eff"].items():
            if v == "S":                                   # Safety exists only as a modified value
                g[b] = rnd.choice(["N", "L", "H"])
                g["M" + b] = "S"
            elif b in ("E", "CR", "IR", "AR") or rnd.random() < 0.6:
                g[b] = v
            else:                                          # carried by the modified metric over a different base value
                g[b] = rnd.choice([w for w in VALS["4"][b] if w != v])
                g["M" + b] = v
        for m in ORDER["4"]:                               # a few supplemental metrics and explicit X
            if m not in g and rnd.random() < 0.1:
                g[m] = rnd.choice(VALS["4"][m]) if m in ("S", "AU", "R", "V", "RE", "U") else "X"
        out.append(("4", -1, g, spell("4", -1, g, some_order(rnd, "4", g) if rnd.random() < 0.5 else None), x["score"]))
    return out


_COVERAGE = {}


def coverage_vectors(seed=0):
    """A small set of valid vectors that together reach every line-to-line transition of the working tree's library that a large
    structured candidate set reaches (every v2 base vector x requirement / environment shapes, every v3 base vector x shapes,
    sampled v4, covering and extremal vectors): rarely executed branches (clamps, caps, special cases) are in it by construction.
    Computed once per source state (cached in the scratch directory by a digest of cvss/*.py)."""
    import hashlib, glob, json, os, random, tempfile, shutil
    from common import REPO, VERIF, run_driver, esc, unesc
    h = hashlib.sha1()
    for f in sorted(glob.glob(os.path.join(REPO, "cvss", "*.py"))):
        h.update(open(f, "rb").read())
    key = h.hexdigest()[:16] + "-%d" % seed
    if key in _COVERAGE:
        return _COVERAGE[key]
    base = os.path.join(VERIF, ".work")
    os.makedirs(base, exist_ok=True)
    cache = os.path.join(base, "coverage-%s.json" % key)
    if os.path.exists(cache):
        try:
            _COVERAGE[key] = [tuple(x) for x in json.load(open(cache))]
            return _COVERAGE[key]
        except ValueError:
            pass
    rnd = random.Random(seed * 7919 + 5)
    cands = []
    # v2: every base vector under shapes of requirements / environment / temporal metrics
    shapes2 = [{}, {"CR": "L", "IR": "L", "AR": "L"}, {"CR": "H", "IR": "H", "AR": "H"}, {"CR": "L", "TD": "H", "CDP": "L"}, {"AR": "L", "CDP": "N"}, {"IR": "L", "TD": "N"},
               {"E": "U", "RL": "OF", "RC": "UC"}, {"CDP": "H", "TD": "L", "CR": "H", "IR": "L", "AR": "ND"}, {"E": "ND", "RL": "ND", "RC": "ND"}, {"TD": "N"}]
    for combo in itertools.product(*[VALS["2"][m] for m in MAND["2"]]):
        for sh in shapes2:
            g = dict(zip(MAND["2"], combo))
            g.update(sh)
            cands.append(("2", spell("2", -1, g)))
    shapes3 = [{}, {"CR": "L", "IR": "L", "AR": "L"}, {"CR": "H", "IR": "H", "AR": "H"}, {"MS": "C"}, {"MS": "U"}, {"E": "U", "RL": "O", "RC": "U"},
               {"MAV": "P", "MAC": "H", "MPR": "H", "MUI": "R", "MC": "N", "MI": "N", "MA": "L", "AR": "L"}, {"MC": "H", "MI": "H", "MA": "H", "CR": "H", "IR": "H", "AR": "H", "MS": "C"}]
    for combo in itertools.product(*[VALS["3"][m] for m in MAND["3"]]):
        for sh in rnd.sample(shapes3, 3):
            g = dict(zip(MAND["3"], combo))
            g.update(sh)
            cands.append(("3", spell("3", rnd.choice([0, 1]), g)))
    for ver in "234":
        cands += [(ver, v[3]) for v in covering_vectors(rnd, ver) + extremal_vectors(rnd, ver)]
        cands += [(ver, random_vector(rnd, ver, p_opt=rnd.choice([0.0, 0.1, 0.5, 0.9]))[3]) for _ in range(2500 if ver == "4" else 600)]
    work = tempfile.mkdtemp(prefix="coverage-", dir=base)
    try:
        n = 16
        size = (len(cands) + n - 1) // n
        jobs = [{"out": os.path.join(work, "cov.%d.out" % k), "cands": [[v, esc(s)] for v, s in cands[k * size:(k + 1) * size]]} for k in range(n) if cands[k * size:(k + 1) * size]]
        run_driver("coverage.py", jobs, work, name="cov")
        chosen = []
        for j in jobs:
            chosen += json.load(open(j["out"]))["chosen"]
        # second level: greedy cover over the jobs' choices
        universe = set(a for c_ in chosen for a in c_[2])
        uncovered, final = set(universe), []
        while uncovered:
            k = max(range(len(chosen)), key=lambda i: len(uncovered.intersection(chosen[i][2])))
            gain = uncovered.intersection(chosen[k][2])
            if not gain:
                break
            final.append((chosen[k][0], unesc(chosen[k][1])))
            uncovered -= gain
        json.dump(final, open(cache, "w"))
        _COVERAGE[key] = final
        return final
    finally:
        shutil.rmtree(work, ignore_errors=True)


ALPHABET = list("AVCPRUISNLHMXDEFOTWYGacvnlx:/. 0134_-+") + ["\t", "\n", "é", "А", "{", "}", '"', "\\", "\x00", "\U0001F600", "\u0661", "\uff10", "\uff11", "\u00a0", "\u2003",
                                                                 # characters tied to ASCII letters by case folding / compatibility normalisation
                                                                 "\u212a", "\u017f", "\u0130", "\u0131", "\uff21", "\uff41", "\ufb01", "\u00df"]


# the version prefix contains a number: every leniency of a number parser is a way to accept what the grammar rejects
NUMERIC_PREFIX_VARIANTS = [p % d for d in ("0", "1") for p in (
    "CVSS:3.0%s/", "CVSS:3.+%s/", "CVSS:3.-%s/", "CVSS:3. %s/", "CVSS:3.%s /", "CVSS:3.0_%s/", "CVSS:3.%s.0/", "CVSS:3.%se0/", "CVSS:03.%s/",
    "CVSS:3.%s\n/", "CVSS:3,%s/", "CVSS:3.%s//", "CVSS: 3.%s/", "CVSS:3 .%s/")] + [
    "CVSS:3.\u0661/", "CVSS:3.\u0660/", "CVSS:3.\uff11/", "CVSS:3.\uff10/", "CVSS:\uff13.1/", "CVSS:3.\u0967/", "CVSS:3.\U0001d7cf/",
    "CVSS:3.\u00b2/", "CVSS:3.\u00b9/", "CVSS:3.\u2080/", "CVSS:3.\u2081/", "CVSS:3.\u2460/", "CVSS:3.\u00bd/", "CVSS:4.\u2070/", "CVSS:\u2074.0/",
    "CVSS:4.\uff10/", "CVSS:\uff14.0/", "CVSS:4.00/", "CVSS:4.+0/", "CVSS:4. 0/", "CVSS:04.0/", "CVSS:4.0 /", "CVSS:4/", "CVSS:4.0.0/"]


def mutate(rnd, s, ver):
    """One edit: character insert/delete/replace, field drop/duplicate/swap/transplant, prefix change, trailing slash."""
    k = rnd.randrange(12)
    fields = s.split("/")
    if k == 0 and s:
        p = rnd.randrange(len(s))
        return s[:p] + s[p + 1:]
    if k == 1:
        p = rnd.randrange(len(s) + 1)
        return s[:p] + rnd.choice(ALPHABET) + s[p:]
    if k == 2 and s:
        p = rnd.randrange(len(s))
        return s[:p] + rnd.choice(ALPHABET) + s[p + 1:]
    if k == 3 and len(fields) > 1:
        p = rnd.randrange(len(fields))
        return "/".join(fields[:p] + fields[p + 1:])
    if k == 4:
        p = rnd.randrange(len(fields))
        q = rnd.randrange(len(fields) + 1)
        return "/".join(fields[:q] + [fields[p]] + fields[q:])
    if k == 5 and len(fields) > 1:
        p, q = rnd.randrange(len(fields)), rnd.randrange(len(fields))
        fields[p], fields[q] = fields[q], fields[p]
        return "/".join(fields)
    if k == 6:
        other = rnd.choice([v for v in "234" if v != ver])
        m = rnd.choice(ORDER[other])
        q = rnd.randrange(len(fields) + 1)
        return "/".join(fields[:q] + ["%s:%s" % (m, rnd.choice(VALS[other][m]))] + fields[q:])
    if k == 7:
        pre = rnd.choice(["CVSS:3.2/", "cvss:3.1/", "CVSS:3.1", "CVSS:3.0/", "CVSS:3.1/", "CVSS:4.0/", "CVSS:4.1/", "CVSS:2.0/", "", "CVSS:3/", " CVSS:3.1/", "CVSS:31/"]
                         + NUMERIC_PREFIX_VARIANTS)
        body = s.split("/", 1)[1] if s.startswith("CVSS:") and "/" in s else s
        return pre + body
    if k == 8:
        return s + "/"
    if k == 9:
        return s.lower() if rnd.random() < 0.5 else s.upper()
    if k == 10 and fields:
        p = rnd.randrange(len(fields))
        fields[p] = rnd.choice([" " + fields[p], fields[p] + " ", fields[p].replace(":", ": "), fields[p].replace(":", "::"), fields[p].replace(":", ""), fields[p] + ":X"])
        return "/".join(fields)
    if k == 11 and len(fields) > 1:
        # change a value to another metric's value or to a legal value of the same metric
        p = rnd.randrange(len(fields))
        if ":" in fields[p]:
            m = fields[p].split(":")[0]
            pool = VALS[ver].get(m, ["Q"]) + ["Q", "ND", "X", "", "High"]
            fields[p] = m + ":" + rnd.choice(pool)
        return "/".join(fields)
    return s + rnd.choice(ALPHABET)


def prefix_variants(rnd, per_variant=1):
    """every numeric-leniency variant of the version prefix in front of valid bodies of the matching version"""
    out = []
    for pre in NUMERIC_PREFIX_VARIANTS:
        ver = "4" if ("4" in pre or "\uff14" in pre or "\u2074" in pre) else "3"
        for _ in range(per_variant):
            s = random_vector(rnd, ver)[3]
            out.append(pre + s.split("/", 1)[1])
    return out


# ---- a catalogue of independent faults; every ordered pair of them is combined in one vector (a defect on an error path
# often needs a second fault to be reached: the first decides which path runs, the second is what that path mishandles)
FORMAT_FRAGMENTS = ["{", "}", "{}", "{0}", "{1}", "{x}", "{0!r}", "%s", "%d", "%(a)s", "%", "$x", "${x}", "\\1", "\\g<0>", "\\", "[", "(", ")", "*", "?", "+", "^", "$", "|", "#", "'", '"', "\n", "\r", "\x00", "\ud800" if False else "\ufffd"]


def _fields(s):
    pre = ""
    if s.startswith("CVSS:") and "/" in s:
        pre, s = s.split("/", 1)
        pre += "/"
    return pre, s.split("/")


def _f_empty_mid(rnd, s, ver):
    pre, f = _fields(s)
    p = rnd.randrange(1, len(f)) if len(f) > 1 else 0
    return pre + "/".join(f[:p] + [""] + f[p:])


def _f_empty_front(rnd, s, ver):
    pre, f = _fields(s)
    return pre + "/" + "/".join(f)


def _f_trailing(rnd, s, ver):
    return s + "/"


def _f_fragment_in_value(rnd, s, ver):
    pre, f = _fields(s)
    p = rnd.randrange(len(f))
    return pre + "/".join(f[:p] + [f[p] + rnd.choice(FORMAT_FRAGMENTS)] + f[p + 1:])


def _f_fragment_in_metric(rnd, s, ver):
    pre, f = _fields(s)
    p = rnd.randrange(len(f))
    return pre + "/".join(f[:p] + [rnd.choice(FORMAT_FRAGMENTS) + f[p]] + f[p + 1:])


def _f_fragment_field(rnd, s, ver):
    pre, f = _fields(s)
    p = rnd.randrange(len(f) + 1)
    return pre + "/".join(f[:p] + [rnd.choice(FORMAT_FRAGMENTS)] + f[p:])


def _f_fragment_in_prefix(rnd, s, ver):
    fr = rnd.choice(FORMAT_FRAGMENTS)
    return (s[:5] + fr + s[5:]) if s.startswith("CVSS:") else fr + s


def _f_duplicate(rnd, s, ver):
    pre, f = _fields(s)
    p = rnd.randrange(len(f))
    return pre + "/".join(f + [f[p]])


def _f_unknown_metric(rnd, s, ver):
    pre, f = _fields(s)
    p = rnd.randrange(len(f) + 1)
    return pre + "/".join(f[:p] + [rnd.choice(["ZZ:N", "Q:X", "av:N", "AV :N", "MAT:N" if ver != "4" else "Au:N", "E2:X"])] + f[p:])


def _f_unknown_value(rnd, s, ver):
    pre, f = _fields(s)
    p = rnd.randrange(len(f))
    return pre + "/".join(f[:p] + [f[p].split(":")[0] + ":" + rnd.choice(["Q", "", "NN", "n", "0", "None"])] + f[p + 1:])


def _f_missing_mandatory(rnd, s, ver):
    pre, f = _fields(s)
    mand = [k for k, x in enumerate(f) if x.split(":")[0] in MAND[ver]]
    if mand:
        del f[rnd.choice(mand)]
    return pre + "/".join(f)


def _f_no_colon(rnd, s, ver):
    pre, f = _fields(s)
    p = rnd.randrange(len(f))
    return pre + "/".join(f[:p] + [f[p].replace(":", rnd.choice(["", "::", "=", ":x:"]))] + f[p + 1:])


def _f_case(rnd, s, ver):
    pre, f = _fields(s)
    p = rnd.randrange(len(f))
    return pre + "/".join(f[:p] + [rnd.choice([f[p].lower(), f[p].upper(), f[p].swapcase(), f[p].title()])] + f[p + 1:])


def _f_space(rnd, s, ver):
    pre, f = _fields(s)
    p = rnd.randrange(len(f))
    return pre + "/".join(f[:p] + [rnd.choice([" " + f[p], f[p] + " ", f[p] + "\t", f[p] + "\n"])] + f[p + 1:])


def _f_bad_prefix(rnd, s, ver):
    body = s.split("/", 1)[1] if s.startswith("CVSS:") and "/" in s else s
    return rnd.choice(["CVSS:3.2/", "cvss:3.1/", "CVSS:4.1/", "CVSS:2.0/", "CVSS:/", "CVSS:3.1/CVSS:3.1/", "CVSS:4.0/CVSS:4.0/"] + ([""] if ver != "2" else [])) + body


def _f_nonascii(rnd, s, ver):
    p = rnd.randrange(len(s) + 1)
    return s[:p] + rnd.choice(["\u00e9", "\u0130", "\u212a", "\u017f", "\U0001F600", "\u0661", "\u200b", "\u2011"]) + s[p:]


def _f_long(rnd, s, ver):
    pre, f = _fields(s)
    p = rnd.randrange(len(f))
    return pre + "/".join(f[:p] + [f[p] * rnd.choice([50, 400])] + f[p + 1:])


def _f_token_inside(rnd, s, ver):
    """a token of the grammar at an unexpected place: a version prefix (with / without its slash), a whole field, the whole vector
    again, glued or separated"""
    tok = rnd.choice(["CVSS:4.0/", "CVSS:3.1/", "CVSS:3.0/", "CVSS:4.0", "CVSS:3.1", "CVSS:", "CVSS", s, s.split("/")[-1], "/".join(s.split("/")[1:])])
    pos = rnd.choice([len(s), len(s), rnd.randrange(len(s) + 1)])
    glue = rnd.choice(["", "", "/", " ", "\n"])
    tail = rnd.choice(["", "", "x", "AV:N", "junk/more", s.split("/")[-1]])
    return s[:pos] + glue + tok + tail + s[pos:]


_CONFUSABLES = {}


def confusables(ch, cap=14):
    """Code points other than `ch` that the interpreter's own text machinery relates to the ASCII letter or digit `ch`: case mappings
    (upper / lower / casefold / title, e.g. U+0130, U+0131, U+017F, U+212A), what the regular-expression engine treats as equal
    under IGNORECASE, what `\\d` and int() take for a digit, and what compatibility normalisation (NFKC / NFKD) folds into it.  A
    comparison that is rewritten with any of these (str.upper -> re.I, == -> casefold, startswith -> a pattern with \\d,
    a normalising clean-up) accepts them.  Computed once from unicodedata / re; at most `cap` per character, the case- and
    pattern-related ones first."""
    import unicodedata, re, sys
    if not _CONFUSABLES:
        strong, weak = {}, {}
        rx = re.compile(r"[a-z0-9]", re.I)
        for cp in range(0x80, 0x30000):
            c = chr(cp)
            if 0xD800 <= cp < 0xE000:
                continue
            rel = set()
            for f in (str.upper, str.lower, str.casefold, str.title):
                t = f(c)
                t = "".join(x for x in t if not unicodedata.combining(x))
                if len(t) == 1 and t.isascii() and t.isalnum():
                    rel.add(("s", t))
            if rx.fullmatch(c):
                for t in "abcdefghijklmnopqrstuvwxyz":
                    if re.fullmatch(t, c, re.I):
                        rel.add(("s", t))
            if c.isdigit() or c.isdecimal() or c.isnumeric():
                try:
                    rel.add(("s", str(int(c))[:1])) if len(str(int(c))) == 1 else None
                except ValueError:
                    d = unicodedata.digit(c, None)
                    if d is not None:
                        rel.add(("w", str(d)))
            for form in ("NFKC", "NFKD"):
                t = "".join(x for x in unicodedata.normalize(form, c) if not unicodedata.combining(x))
                if len(t) == 1 and t.isascii() and t.isalnum():
                    rel.add(("w", t))
            for kind, t in rel:
                for tt in set([t.upper(), t.lower()]):
                    (strong if kind == "s" else weak).setdefault(tt, []).append(c)
        for k in set(strong) | set(weak):
            st = list(dict.fromkeys(strong.get(k, [])))
            wk = [c for c in dict.fromkeys(weak.get(k, [])) if c not in st]
            # of the (many) compatibility forms keep a spread: full-width, circled / parenthesised, mathematical, sub- / superscript
            _CONFUSABLES[k] = (st, wk[::max(1, len(wk) // 6)])
    st, wk = _CONFUSABLES.get(ch, ([], []))
    if len(st) > 8:          # decimal digits exist in some sixty scripts: keep a spread of them
        st = st[:3] + st[3::max(1, (len(st) - 3) // 5)]
    full = chr(0xFEE0 + ord(ch))          # the full-width form is what East Asian input methods type
    return list(dict.fromkeys(([full] if ch.isalnum() and ch.isascii() else []) + st + wk))[:cap]


def confusable_sweep(rnd):
    """every character class of a vector (prefix letters and digits, a metric name, a value) with one character replaced by each of
    its confusables, per version"""
    out = []
    for ver in "234":
        s = random_vector(rnd, ver, p_opt=0.6)[3]
        if ver == "4" and "/U:" not in s:
            s += "/U:Red"
        pre, f = _fields(s)
        spots = []
        if pre:
            spots += [(0, k) for k in range(len(pre)) if pre[k].isalnum()]
        seen = set()
        for fi, fld in enumerate(f):
            for k, chx in enumerate(fld):
                if chx.isalnum() and (chx, k < fld.find(":")) not in seen:
                    seen.add((chx, k < fld.find(":")))
                    spots.append((fi + 1, k))
        for fi, k in spots:
            src = pre if fi == 0 else f[fi - 1]
            for c in confusables(src[k]):
                new = src[:k] + c + src[k + 1:]
                out.append((new + "/".join(f)) if fi == 0 else (pre + "/".join(f[:fi - 1] + [new] + f[fi:])))
    return out


def wild_answers(rnd, n=120):
    """answers to a builder question that are no legal value of any metric of any version: text shaped like the grammar the builder
    is producing (fields, chunks of vectors, prefixes, several colons - what gets pasted from an existing vector), characters with a
    meaning to formatters / patterns / shells, look-alikes of value letters, very long and control-character answers"""
    legal = set(v.upper() for ver in "234" for m in ORDER[ver] for v in VALS[ver][m])
    out = ["AV:N", "av:n", "AV:N/AC:L", "CVSS:3.1/AV:N", "CVSS:4.0/AV:N/AC:L/AT:N", "C:P/I:P/A:P", "::", ":", "a:b:c", "AV::N", ":N", "N:", "N/A", "N/L/H",
           "AV=N", "AV N", "/", "//", "CVSS:3.1/", "CVSS:", "7.5", "7.5/AV:N/AC:L/Au:N/C:P/I:P/A:P", "-v", "--help", "-", "--", "junk", "?", "0", "None", "High",
           "null", "True", "\\", "\\n", "%s", "%d", "{}", "{0}", "{x}", "$x", "*", ".*", "(", ")", "[", "(N)", "[N]", "'N'", '"N"', "N.", "N,", "N;", "N N",
           "N\tL", "\x1b[31mN\x1b[0m", "\x1b", "\x07", "N\x00", "\ufeffN", "N\u200b", "\u00e9", "\U0001F600", "x" * 300, "N" * 70, "ND" * 40, "AV:N/" * 30]
    for v in sorted(legal):
        if len(v) <= 2:
            for c in confusables(v[0], cap=4):
                out.append(c + v[1:])
    for _ in range(20):
        ver = rnd.choice("234")
        sv = random_vector(rnd, ver)[3]
        out += [sv, rnd.choice(sv.split("/")), "/".join(sv.split("/")[:rnd.randrange(2, 5)])]
    out = [a for a in dict.fromkeys(out) if a.strip() and a.strip().upper() not in legal and "\n" not in a and "\r" not in a]
    rnd.shuffle(out)
    return out[:n]


WRAPPERS = [("(", ")"), ("[", "]"), ("{", "}"), ("<", ">"), ('"', '"'), ("'", "'"), ("`", "`"), ("\u201c", "\u201d"), ("", "."), ("", ","), ("", ";"), ("", ")"), ("(", ""),
            (" ", ""), ("", " "), (" ", " "), ("\t", ""), ("", "\n"), ("", "\r\n"), ("\ufeff", ""), ("", "\x00"), ("vector=", ""), ("CVSS=", ""), ("#", ""), ("", "#x")]


def _f_wrapped(rnd, s, ver):
    """the whole vector as it is quoted in prose, reports and data files: in brackets or quotes, with trailing punctuation, padded"""
    a, b = rnd.choice(WRAPPERS)
    return a + s + b


def wrapper_sweep(rnd):
    out = []
    for ver in "234":
        for a, b in WRAPPERS:
            out.append(a + random_vector(rnd, ver, p_opt=rnd.choice([0.0, 0.5]))[3] + b)
    return out


FAULTS = [_f_wrapped, _f_token_inside, _f_empty_mid, _f_empty_front, _f_trailing, _f_fragment_in_value, _f_fragment_in_metric, _f_fragment_field, _f_fragment_in_prefix, _f_duplicate,
          _f_unknown_metric, _f_unknown_value, _f_missing_mandatory, _f_no_colon, _f_case, _f_space, _f_bad_prefix, _f_nonascii, _f_long]


def fault_pairs(rnd, per_pair=1):
    """every ordered pair of fault kinds (and every kind alone) applied to a valid vector of every version"""
    out = []
    for ver in "234":
        for a in FAULTS:
            for b in [None] + FAULTS:
                for _ in range(per_pair):
                    s = random_vector(rnd, ver, p_opt=rnd.choice([0.0, 0.2, 0.6]))[3]
                    t = a(rnd, s, ver)
                    if b is not None:
                        try:
                            t = b(rnd, t, ver)
                        except (ValueError, IndexError):
                            pass
                    out.append(t)
    return out


def fragment_sweep(rnd):
    """every format / pattern fragment x every other fault kind, the fragment placed once before and once after the other fault"""
    out = []
    others = [f for f in FAULTS if not f.__name__.startswith("_f_fragment")]
    for ver in "234":
        for a in others:
            for fr in FORMAT_FRAGMENTS:
                s = random_vector(rnd, ver, p_opt=rnd.choice([0.0, 0.2]))[3]
                t = a(rnd, s, ver)
                out.append(t + fr)
                pre, f = _fields(t)
                out.append(pre + fr + "/".join(f))
    return out


def value_case_variants(rnd):
    """every metric value of more than one letter (and every metric name) in every letter-case variant, in otherwise valid vectors"""
    out = []
    for ver in "234":
        for m in ORDER[ver]:
            for v in VALS[ver][m]:
                variants = set([v.lower(), v.upper(), v.capitalize(), v.swapcase(), v.title()]) - set([v])
                for w in sorted(variants):
                    _, minor, g, _s = random_vector(rnd, ver, p_opt=rnd.choice([0.0, 0.2]))
                    g = dict(g)
                    g[m] = v
                    out.append(spell(ver, minor, g, some_order(rnd, ver, g)).replace("%s:%s" % (m, v), "%s:%s" % (m, w), 1))
            for w in sorted(set([m.lower(), m.upper(), m.capitalize(), m.swapcase()]) - set([m])):
                _, minor, g, _s = random_vector(rnd, ver, p_opt=0.1)
                g = dict(g)
                g.setdefault(m, VALS[ver][m][0])
                out.append(spell(ver, minor, g).replace("%s:%s" % (m, g[m]), "%s:%s" % (w, g[m]), 1))
    return out


_DICTIONARY = {}


def source_dictionary():
    """identifiers and the words of string literals of the library's own source (the working tree under test): what a program
    compares its input with is written in its text - internal table keys, attribute names, helper names"""
    import re, os, glob
    from common import REPO
    if REPO not in _DICTIONARY:
        toks = set()
        for f in sorted(glob.glob(os.path.join(REPO, "cvss", "*.py"))):
            try:
                text = open(f, encoding="utf-8", errors="replace").read()
            except OSError:
                continue
            toks.update(t for t in re.findall(r"[A-Za-z_][A-Za-z0-9_]*", text) if len(t) <= 14)
        _DICTIONARY[REPO] = sorted(toks)
    return _DICTIONARY[REPO]


def dictionary_fields(rnd, cap=1200):
    """every word of the source dictionary as a metric name (with a plausible value) appended to / inserted into a valid vector,
    rotating over the versions; words that are legal metric names of that version are left out (they would be duplicates or valid)"""
    out = []
    words = source_dictionary()
    if len(words) > cap:
        words = rnd.sample(words, cap)
    for k, w in enumerate(words):
        ver = "234"[k % 3]
        if w in ORDER[ver]:
            continue
        for v in ("X" if ver != "2" else "ND", "N", "L", "H", rnd.choice(["P", "U", "C", "A", "M", "S", "R"])):
            s = random_vector(rnd, ver, p_opt=rnd.choice([0.0, 0.2]))[3]
            fields = s.split("/")
            pos = rnd.randrange(1 if ver != "2" else 0, len(fields) + 1)
            out.append("/".join(fields[:pos] + ["%s:%s" % (w, v)] + fields[pos:]))
    return out


def near_misses(rnd, n, depth2=0.2):
    out = prefix_variants(rnd) + value_case_variants(rnd) + fault_pairs(rnd, 1 if n < 50000 else 6) + fragment_sweep(rnd) + dictionary_fields(rnd)
    out += wrapper_sweep(rnd) + confusable_sweep(rnd)
    for _ in range(n):
        ver = rnd.choice("234")
        _, minor, g, s = random_vector(rnd, ver)
        t = mutate(rnd, s, ver)
        if rnd.random() < depth2:
            t = mutate(rnd, t, ver)
        out.append(t)
    # two "very long field" faults in one vector multiply: TLC's string operators are quadratic, a megabyte string stalls a run for hours
    return [t if len(t) <= 6000 else t[:6000] for t in out]


def arbitrary_text(rnd, n):
    """hypothesis-generated arbitrary text incl. control / astral characters, empty and long."""
    from hypothesis import strategies as st, settings, HealthCheck, given, seed as hseed, Phase
    res = []
    strat = st.one_of(st.text(max_size=60), st.text(alphabet="AVCPRUISNLHM:/X.301 ", max_size=80),
                      st.text(alphabet=st.characters(), min_size=0, max_size=10))

    @settings(max_examples=n, database=None, derandomize=False, suppress_health_check=list(HealthCheck), deadline=None,
              phases=[Phase.generate])
    @hseed(rnd.randrange(2 ** 32))
    @given(strat)
    def collect(s):
        res.append(s)
    collect()
    res += ["", "/", ":", "CVSS:3.1/", "CVSS:4.0/", "A" * 5000, "AV:N/" * 400, "\x00", "CVSS:3.1/AV:N/AC:L/PR:N/UI:N/S:U/C:H/I:H/A:H\n"]
    return res


SCORE_SPELLINGS = ["{t}", "{t}0", "0{t}", "+{t}", " {t}", "{t} ", "{t}e0", "{m}e-1", "{m}E-1", "{m}e-01", "{t}_", "_{t}", "{i}_{f}",
                   "-{t}", "{t}.0", "{t},0", "", "nan", "inf", "-inf", "NaN", "Infinity", "0x7", "{i}", "{i}.", ".{f}", "1e1", "10", "10.", "1_0.0",
                   "1__0.0", "-0.0", "0", "-0", "00.0", "{t}e", "e1", ".", "+", "{t}f", "{i}.{f}00000"]


def rh_structural(rnd, vectors, per_kind=6):
    """structural corner cases of <score>/<vector>: empty parts, white space (incl. line breaks) around or inside either part,
    several slashes, with the right and with a wrong score"""
    out = []
    ws = [" ", "\t", "\n", "\r\n", "\x0b", "\x0c"]
    for ver in "234":
        pool = [v for v in vectors if v[0] == ver and v[2] is not None]
        for _ in range(per_kind):
            _, s, base = rnd.choice(pool)
            for t in (base, (base + 1) % 101):
                sc = "%d.%d" % (t // 10, t % 10)
                w = rnd.choice(ws)
                p = rnd.randrange(1, len(s))
                out += [(ver, sc + "/"), (ver, sc), (ver, "/" + s), (ver, sc + "//" + s), (ver, sc + "/" + s + w), (ver, sc + "/" + w + s),
                        (ver, sc + w + "/" + s), (ver, w + sc + "/" + s), (ver, sc + "/" + s[:p] + w + s[p:]), (ver, sc[:1] + w + sc[1:] + "/" + s),
                        (ver, sc + "/" + s + "/"), (ver, sc + "/" + s + "/" + sc), (ver, sc + "\n/" + s + "\n"), (ver, "/"), (ver, "")]
    return out


def rh_numeric_wild(rnd, n, vectors):
    """score texts that exercise the interpreter's number parsing and printing near and far from the true score (no claim is made
    about what they denote: used where interpreters are compared with each other, C20)"""
    out = []
    pool = [v for v in vectors if v[2] is not None]
    for _ in range(n):
        ver, s, base = rnd.choice(pool)
        x = base / 10.0
        k = rnd.randrange(12)
        if k == 0:
            t = "%.*f" % (rnd.choice([11, 12, 13, 14, 15, 16, 17, 20]), x + rnd.choice([-1, 1]) * 10.0 ** -rnd.choice([10, 11, 12, 13, 14, 15, 16]))
        elif k == 1:
            t = repr(x) + "0" * rnd.randrange(1, 30) + rnd.choice(["", "1", "9"])
        elif k == 2:
            t = "%d%s" % (int(x), ("%.17f" % (x - int(x)))[1:])
        elif k == 3:
            t = "%.*e" % (rnd.choice([0, 1, 5, 12, 15, 16, 17]), x)
        elif k == 4:
            t = rnd.choice(["1e400", "-1e400", "1e-400", "4.9e-324", "1.7976931348623157e308", "1e308", "2.2250738585072014e-308"])
        elif k == 5:
            t = rnd.choice(["0x1p3", "0x7.8p0", "1e5_0", "1_0", "1__0", "٧.٥", "７.５", "7.5\u00a0", "\u20097.5", "7.5\x1f", "\x1c7.5"])
        elif k == 6:
            t = str(base) + "e-1" if rnd.random() < 0.5 else "%de-%d" % (base * 10 ** rnd.choice([1, 5, 14, 18]), rnd.choice([2, 6, 15, 19]))
        elif k == 7:
            t = "%.12g" % (x + rnd.choice([-1, 1]) * 1e-13)
        elif k == 8:
            t = repr(x + rnd.choice([-1, 1]) * rnd.choice([1e-13, 1e-14, 1e-15, 2e-16, 1e-16]))
        elif k == 9:
            t = ("0" * rnd.randrange(1, 20)) + repr(x)
        elif k == 10:
            t = repr(x).replace(".", rnd.choice([",", "..", ". ", " ."]))
        else:
            t = rnd.choice(["+", "-", "++", "+-"]) + repr(x)
        out.append((ver, t + "/" + s))
    return out


def rh_strings(rnd, n, vectors):
    """score-text / vector-text compositions; vectors = [(ver, s, base_tenths or None)]"""
    out = []
    for _ in range(n):
        ver, s, base = rnd.choice(vectors)
        r = rnd.random()
        if base is None or r < 0.25:
            t = rnd.randrange(0, 101)
        elif r < 0.7:
            t = base
        else:
            t = max(0, min(100, base + rnd.choice([-1, 1, -10, 10, 5])))
        txt = "%d.%d" % (t // 10, t % 10)
        sp = rnd.choice(SCORE_SPELLINGS).format(t=txt, m=str(t), i=str(t // 10), f=str(t % 10))
        k = rnd.random()
        if k < 0.8:
            out.append((ver, sp + "/" + s))
        elif k < 0.85:
            out.append((ver, sp + s))           # no slash at all (v2) or slash of the prefix only
        elif k < 0.9:
            out.append((ver, sp + "/" + mutate(rnd, s, ver)))
        elif k < 0.95:
            other = rnd.choice([v for v in "234" if v != ver])
            out.append((other, sp + "/" + s))
        else:
            out.append((ver, sp + "//" + s))
    return out
