# -*- coding: utf-8 -*-
"""Which properties are claimed, with which module, and the MANIFEST texts."""

TB = ("trusted: TLC; the transcription of the FIRST standards in spec/Tables*.tla / Score*.tla (validated in every run "
      "against the official calculator vectors pinned under data/official); CPython's repr(float)")

CHECKS = {
    "C01": {"mod": "props.scores", "ref": "DESIGN.md 5 C01",
            "technique": "TLA+ spec (Score3.tla, exact bignum arithmetic) + TLC trace validation of recorded score tables",
            "text": "Every constructor result over complete product sets of v3.0/v3.1 metric assignments (quick: all 2x2592 base x 100 temporal spellings, every base x requirement spelling, every modified assignment over two bases; thorough: the full finite quotient named in the property) is recorded from the working tree and judged by TLC against the exact-arithmetic TLA+ transcription of the FIRST equations; the specification itself is checked against the pinned official vectors in the same run.",
            "note": TB + "; canonical spelling in the tables, other spellings by the seeded spelling sample and by C05/C06"},
    "C02": {"mod": "props.scores", "ref": "DESIGN.md 5 C02",
            "technique": "TLA+ spec (Score4.tla, integer arithmetic) + TLC trace validation of recorded score tables",
            "text": "Score tables recorded from the working tree (quick: 1.07 M vectors stratified so that TLC itself confirms all 270 lookup rows are exercised; thorough: all 15 116 544 effective assignments) are judged entry by entry by TLC against the TLA+ transcription of the v4.0 macrovector/interpolation algorithm; design invariants (row exists, dominating highest-severity vector exists, gaps non-negative, tie margin) are model-checked on the specification.",
            "note": TB + "; the 270-row lookup table was transcribed once and frozen in spec/Tables4Lookup.tla (provenance limit stated in DESIGN.md 8)"},
    "C03": {"mod": "props.scores", "ref": "DESIGN.md 5 C03",
            "technique": "TLA+ spec (Score2.tla, exact bignum arithmetic) + TLC trace validation of recorded score tables",
            "text": "Score tables recorded from the working tree (all 729 base x 100 temporal spellings, every base x requirement triple x seeded temporal/environmental cases, the Not-Defined table; thorough: the full 18.9 M quotient) judged by TLC against the exact TLA+ transcription of the v2 guide equations including None-ness of undefined groups.",
            "note": TB},
    "C14": {"mod": "props.mono", "ref": "DESIGN.md 5 C14",
            "technique": "TLA+ severity-order tables + TLC relation-only trace validation of recorded score tables (no oracle)",
            "text": "TLC first checks on the specification's own score functions that the standards are monotone exactly where C14 claims (and derives the v3.0 exemption); then every pair of recorded implementation scores one severity step apart inside the score tables (quick: ~10^7 comparisons; thorough: all pairs of the complete v4 quotient in two transposed layouts) is compared, without consulting any expected score.",
            "note": "trusted: TLC; the severity ranks in spec/Tables*.tla; canonical spellings make neighbours differ in exactly one spelled metric"},
    "C09": {"mod": "props.repr09", "ref": "DESIGN.md 5 C09",
            "technique": "TLA+ spec of score text grammar and official severity bands + TLC trace validation of recorded observations",
            "text": "For every vector of the score tables (every score value that arises from real vectors) the driver records repr(score), its type, and the severity from severities(), the JSON output and the v4 attribute; TLC judges every distinct observation against the score-text grammar and the official bands (TraceRepr.tla). Evidence lists which band edges were actually produced per version and slot.",
            "note": "trusted: TLC; the band tables in spec/Api.tla; CPython repr(float)"},
    "C04": {"mod": "props.strings", "ref": "DESIGN.md 5 C04",
            "technique": "TLA+ grammar (Vector.tla Parse) + TLC trace validation of constructor outcomes on generated strings",
            "text": "Thousands of distinct strings (valid vectors of every version in random order covering every metric and value, every kind of single edit of them, arbitrary hypothesis text) are given to all three constructors of the working tree; TLC parses each string itself at character level and demands exactly the outcome class the grammar dictates (object / that version's malformed error / mandatory error), and that no exception outside CVSSError escapes.",
            "note": "trusted: TLC; the grammar in spec/Vector.tla; unbounded input space covered by bounded neighbourhoods plus seeded generation, not by proof"},
    "C07": {"mod": "props.strings", "ref": "DESIGN.md 5 C07",
            "technique": "TLA+ spec of the canonical form and of object equality + TLC trace validation (per-event and whole-trace clauses)",
            "text": "For recorded constructions TLC checks that clean_vector() lists exactly the defined metrics once each behind the right prefix, that across the whole trace the emitted metric order is one fixed order (acyclic precedence), that re-parsing yields an equal object with equal scores/hash, and for pools of objects that the ==/!=/hash/set-membership matrix is exactly the specification's equality (same version incl. minor, same defined metric values) and never equals a foreign value.",
            "note": "trusted: TLC; Defined()/EqObj in spec/Vector.tla, Api.tla"},
    "C08": {"mod": "props.strings", "ref": "DESIGN.md 5 C08",
            "technique": "TLA+ transcription of the official vectorString patterns + grammar; TLC trace validation of emitted strings",
            "text": "Every cleaned vector and the vector part of every Red Hat vector recorded from the working tree must be accepted by the specification's grammar, by the library's own constructor, and by the TLA+ transcription of the official vectorString pattern of its version (v4.0: mandatory order Base, Threat, Environmental, Supplemental). The builder's return value is checked by the same predicate in C16.",
            "note": "trusted: TLC; OfficialPattern in spec/Vector.tla (cross-checked against Python re on the pinned official schema files in this run)"},
    "C12": {"mod": "props.strings", "ref": "DESIGN.md 5 C12",
            "technique": "TLA+ spec of Red Hat notation incl. the float() literal grammar + TLC trace validation of rh_vector/from_rh_vector events",
            "text": "rh_vector() format and round trip on valid vectors; from_rh_vector() on all 101 score texts x 30 vectors per version and thousands of seeded score spellings / vector parts: TLC computes the demanded outcome class (object, RH-malformed, score mismatch, vector errors) from the string itself and from the base score the library reports for the vector part.",
            "note": "trusted: TLC; numeric literals restricted to ASCII and <= 8 significant digits so that exact rational comparison equals float comparison"},
    "C15": {"mod": "props.strings", "ref": "DESIGN.md 5 C15",
            "technique": "TLA+ spec of the sub-vectors + TLC trace validation incl. re-assembled vector scores",
            "text": "temporal_vector()/environmental_vector() of recorded v2/v3 constructions must equal the specification's strings (every group metric once, in order, given value or ND / X / inherited base value); the vector re-assembled from base metrics and both sub-vectors (string re-derived by TLC) must have identical scores.",
            "note": "trusted: TLC; group orders in spec/Tables2.tla, Tables3.tla"},
}

NOT_APPLICABLE = []
