# -*- coding: utf-8 -*-
"""Which properties are claimed, with which module, and the MANIFEST texts."""

TB = ("trusted: TLC; the transcription of the FIRST standards in spec/Tables*.tla / Score*.tla (validated in every run "
      "against the official calculator vectors pinned under data/official); CPython's repr(float)")

CHECKS = {
    "C01": {"mod": "props.scores", "ref": "DESIGN.md 5 C01",
            "technique": "TLA+ spec (Score3.tla, exact bignum arithmetic) + TLC trace validation of recorded score tables",
            "text": "Every constructor result over complete product sets of v3.0/v3.1 metric assignments (quick: all 2x2592 base x 100 temporal spellings, every base x requirement spelling, every modified assignment over two bases; thorough: the full finite quotient named in the property) is recorded from the working tree and judged by TLC against the exact-arithmetic TLA+ transcription of the FIRST equations; the specification itself is checked against the pinned official vectors in the same run.",
            "note": TB + "; canonical spelling in the tables, other spellings by the seeded spelling sample and by C05/C06"},
    "C02": {"mod": "props.scores", "ref": "DESIGN.md 5 C02",
            "technique": "TLA+ spec (Score4.tla, integer arithmetic) + TLC trace validation of recorded score tables",
            "text": "Score tables recorded from the working tree (quick: 1.07 M vectors stratified so that TLC itself confirms all 270 lookup rows are exercised; thorough: all 15 116 544 effective assignments) are judged entry by entry by TLC against the TLA+ transcription of the v4.0 macrovector/interpolation algorithm; design invariants (row exists, dominating highest-severity vector exists, gaps non-negative, tie margin) are model-checked on the specification.",
            "note": TB + "; the 270-row lookup table was transcribed once and frozen in spec/Tables4Lookup.tla (provenance limit stated in DESIGN.md 8)"},
    "C03": {"mod": "props.scores", "ref": "DESIGN.md 5 C03",
            "technique": "TLA+ spec (Score2.tla, exact bignum arithmetic) + TLC trace validation of recorded score tables",
            "text": "Score tables recorded from the working tree (all 729 base x 100 temporal spellings, every base x requirement triple x seeded temporal/environmental cases, the Not-Defined table; thorough: the full 18.9 M quotient) judged by TLC against the exact TLA+ transcription of the v2 guide equations including None-ness of undefined groups.",
            "note": TB},
    "C14": {"mod": "props.mono", "ref": "DESIGN.md 5 C14",
            "technique": "TLA+ severity-order tables + TLC relation-only trace validation of recorded score tables (no oracle)",
            "text": "TLC first checks on the specification's own score functions that the standards are monotone exactly where C14 claims (and derives the v3.0 exemption); then every pair of recorded implementation scores one severity step apart inside the score tables (quick: ~10^7 comparisons; thorough: all pairs of the complete v4 quotient in two transposed layouts) is compared, without consulting any expected score.",
            "note": "trusted: TLC; the severity ranks in spec/Tables*.tla; canonical spellings make neighbours differ in exactly one spelled metric"},
    "C09": {"mod": "props.repr09", "ref": "DESIGN.md 5 C09",
            "technique": "TLA+ spec of score text grammar and official severity bands + TLC trace validation of recorded observations",
            "text": "For every vector of the score tables (every score value that arises from real vectors) the driver records repr(score), its type, and the severity from severities(), the JSON output and the v4 attribute; TLC judges every distinct observation against the score-text grammar and the official bands (TraceRepr.tla). Evidence lists which band edges were actually produced per version and slot.",
            "note": "trusted: TLC; the band tables in spec/Api.tla; CPython repr(float)"},
}

NOT_APPLICABLE = []
