# -*- coding: utf-8 -*-
"""Score-table layouts (which vectors are enumerated, in which product structure) and the
recording pipeline shared by C01, C02, C03, C09 and C14.

A table header is {ver, minor, slots, fixed, outer:[dim], inner:[dim]}; a dim is
{name, opts:[partial assignment]}.  The value lists below are the *harness's* enumeration
choices only; which values are legal, how they rank and what they score is decided by the
TLA+ tables, and TLC re-parses sample strings to check that the decoding agrees.
"""
import itertools, json, os, random
from common import run_driver, MachineryError

V = {
    "2": {"AV": "LAN", "AC": "HML", "Au": "MSN", "C": "NPC", "I": "NPC", "A": "NPC",
          "E": ["U", "POC", "F", "H"], "RL": ["OF", "TF", "W", "U"], "RC": ["UC", "UR", "C"],
          "CDP": ["N", "L", "LM", "MH", "H"], "TD": ["N", "L", "M", "H"],
          "CR": "LMH", "IR": "LMH", "AR": "LMH"},
    "3": {"AV": "PLAN", "AC": "HL", "PR": "HLN", "UI": "RN", "S": "UC", "C": "NLH", "I": "NLH",
          "A": "NLH", "E": "UPFH", "RL": "OTWU", "RC": "URC", "CR": "LMH", "IR": "LMH", "AR": "LMH",
          "MAV": "PLAN", "MAC": "HL", "MPR": "HLN", "MUI": "RN", "MS": "UC", "MC": "NLH",
          "MI": "NLH", "MA": "NLH"},
    "4": {"AV": "PLAN", "AC": "HL", "AT": "PN", "PR": "HLN", "UI": "APN", "VC": "NLH", "VI": "NLH",
          "VA": "NLH", "SC": "NLH", "SI": "NLH", "SA": "NLH", "CR": "LMH", "IR": "LMH", "AR": "LMH",
          "E": "UPA"},
}
ND = {"2": "ND", "3": "X", "4": "X"}


def dim(ver, m, absent=False, nd=False, values=None):
    opts = [{m: v} for v in (values if values is not None else V[ver][m])]
    if nd:
        opts.append({m: ND[ver]})
    if absent:
        opts.append({})
    return {"name": m, "opts": opts}


def dim4_s(m):
    """v4 SI / SA with the Safety level, which only a modified metric can express."""
    return {"name": m, "opts": [{m: "N"}, {m: "L"}, {m: "H"}, {m: "N", "M" + m: "S"}]}


def ov_dim(ver, b, values=None, modified_only=()):
    """every effective value of a base metric, written plainly and through its modified twin over every *different* base value:
    b:v | b:w + Mb:v for all w # v (modified_only: values only the modified metric can take, e.g. Safety)"""
    vals = list(values or V[ver][b])
    opts = [{b: v} for v in vals]
    for v in vals + list(modified_only):
        opts += [{b: w, "M" + b: v} for w in vals if w != v]
    return {"name": b + "~M" + b, "opts": opts}


def tuple_dim(name, metrics, tuples):
    return {"name": name, "opts": [dict((m, v) for m, v in zip(metrics, t) if v != "-") for t in tuples]}


def header(ver, minor, fixed, outer, inner, cov=False):
    h = {"ver": ver, "minor": minor, "slots": 1 if ver == "4" else 3, "fixed": fixed,
         "outer": outer, "inner": inner}
    if cov:
        h["cov"] = 1
    return h


def rows_of(t, h):
    rad = [range(1, len(d["opts"]) + 1) for d in h["outer"]]
    return [[t, list(o)] for o in itertools.product(*rad)]


def size_inner(h):
    n = 1
    for d in h["inner"]:
        n *= len(d["opts"])
    return n


# ------------------------------------------------------------------------------------------
BASE4_N = {"AV": "N", "AC": "L", "AT": "N", "PR": "N", "UI": "N", "VC": "H", "VI": "H", "VA": "H",
           "SC": "H", "SI": "H", "SA": "H"}


def v4_tables(tier, seed):
    rnd = random.Random(seed * 7919 + 4)
    tabs = []
    if tier == "quick":
        # V6 tuples: 12 fixed ones covering the five joint EQ3/EQ6 levels, the no-impact corner,
        # and 27 seeded ones
        allv6 = list(itertools.product("NLH", "NLH", "NLH", "LMH", "LMH", "LMH"))
        fixed12 = [("H", "H", "H", "H", "H", "H"), ("H", "H", "L", "M", "M", "H"), ("H", "H", "H", "M", "M", "M"),
                   ("L", "H", "H", "H", "H", "H"), ("H", "L", "H", "H", "H", "H"), ("L", "H", "L", "H", "M", "H"),
                   ("H", "L", "L", "M", "H", "H"), ("L", "L", "H", "H", "H", "M"), ("L", "L", "L", "H", "H", "H"),
                   ("N", "N", "N", "L", "L", "L"), ("N", "N", "N", "H", "H", "H"), ("N", "L", "N", "M", "L", "M")]
        rest = [t for t in allv6 if t not in fixed12]
        v6 = fixed12 + rnd.sample(rest, 27)
        tabs.append(header("4", -1, {}, [tuple_dim("V6", ["VC", "VI", "VA", "CR", "IR", "AR"], v6)],
                           [dim("4", "AV"), dim("4", "PR"), dim("4", "UI"), dim("4", "AC"), dim("4", "AT"),
                            dim("4", "SC"), dim4_s("SI"), dim4_s("SA"), dim("4", "E")], cov=True))
        # second product: every (VC,VI,VA,CR,IR,AR) in representative contexts of the other classes
        eq1 = [("N", "N", "N"), ("A", "N", "N"), ("N", "L", "P"), ("P", "N", "N"), ("L", "H", "A"), ("A", "L", "P")]
        eq4 = [("H", "N", "S"), ("N", "S", "L"), ("H", "H", "H"), ("H", "L", "N"), ("L", "L", "L"), ("N", "N", "N")]
        d1 = tuple_dim("EQ1", ["AV", "PR", "UI"], eq1)
        d2 = tuple_dim("EQ2", ["AC", "AT"], [("L", "N"), ("H", "P")])
        d4 = {"name": "EQ4", "opts": []}
        for sc, si, sa in eq4:
            o = {"SC": sc, "SI": si if si != "S" else "N", "SA": sa if sa != "S" else "N"}
            if si == "S":
                o["MSI"] = "S"
            if sa == "S":
                o["MSA"] = "S"
            d4["opts"].append(o)
        tabs.append(header("4", -1, {}, [d1, d2, d4, dim("4", "E")],
                           [dim("4", "VC"), dim("4", "VI"), dim("4", "VA"), dim("4", "CR"), dim("4", "IR"), dim("4", "AR")]))
        # all 104 976 base-only vectors
        tabs.append(header("4", -1, {}, [dim("4", "AV"), dim("4", "PR"), dim("4", "UI"), dim("4", "AC"), dim("4", "AT")],
                           [dim("4", m) for m in ["VC", "VI", "VA", "SC", "SI", "SA"]]))
    # effective values carried by modified metrics over a different base value (both tiers): exploitability metrics ...
    imp6 = tuple_dim("IMP", ["VC", "VI", "VA", "SC", "SI", "SA"], [("H", "H", "H", "N", "N", "N"), ("L", "N", "H", "H", "L", "N"), ("N", "L", "N", "L", "H", "H"),
                                                                   ("H", "L", "L", "N", "N", "L"), ("N", "N", "L", "H", "H", "H"), ("L", "L", "L", "L", "L", "L")])
    tabs.append(header("4", -1, {}, [imp6, dim("4", "E", values="AU")], [ov_dim("4", b) for b in ["AV", "PR", "UI", "AC", "AT"]]))
    # ... and impact metrics (vulnerable system overridden; subsequent system plain, with Safety)
    ex5 = tuple_dim("EX", ["AV", "PR", "UI", "AC", "AT"], [("N", "N", "N", "L", "N"), ("A", "L", "P", "H", "P"), ("P", "H", "A", "L", "N"), ("L", "N", "A", "L", "P")])
    sub4 = {"name": "SUB", "opts": [{"SC": "N", "SI": "N", "SA": "N"}, {"SC": "H", "SI": "L", "SA": "N"}, {"SC": "L", "SI": "H", "SA": "H"}, {"SC": "N", "SI": "N", "SA": "L", "MSI": "S"}]}
    tabs.append(header("4", -1, {}, [ex5, dim("4", "CR", values="HL"), dim("4", "E", values="AU")], [ov_dim("4", b) for b in ["VC", "VI", "VA"]] + [sub4]))
    tabs.append(header("4", -1, {"VC": "L", "VI": "H", "VA": "N"}, [ex5, dim("4", "E", values="AP")],
                       [ov_dim("4", "SC"), ov_dim("4", "SI", modified_only="S"), ov_dim("4", "SA", modified_only="S")]))
    if tier != "quick":
        a = [dim("4", m) for m in ["AV", "PR", "UI", "AC", "AT", "VC", "VI", "VA"]]
        b = [dim("4", "SC"), dim4_s("SI"), dim4_s("SA"), dim("4", "CR"), dim("4", "IR"), dim("4", "AR"), dim("4", "E")]
        tabs.append(header("4", -1, {}, a, b, cov=True))      # complete quotient, layout 1
        tabs.append(header("4", -1, {}, b, a))                # complete quotient, layout 2 (transposed)
        tabs.append(header("4", -1, {}, [dim("4", "AV"), dim("4", "PR"), dim("4", "UI"), dim("4", "AC"), dim("4", "AT")],
                           [dim("4", m) for m in ["VC", "VI", "VA", "SC", "SI", "SA"]]))
    return tabs


def v3_tables(tier, seed, minor):
    rnd = random.Random(seed * 7919 + 30 + minor)
    tabs = []
    b5 = [dim("3", m) for m in ["AV", "AC", "PR", "UI", "S"]]
    cia = [dim("3", m) for m in ["C", "I", "A"]]
    tmp_sp = [dim("3", m, absent=True) for m in ["E", "RL", "RC"]]       # 5*5*4 = 100 spellings
    tmp48 = [dim("3", m) for m in ["E", "RL", "RC"]]
    req64 = [dim("3", m, absent=True) for m in ["CR", "IR", "AR"]]
    req27 = [dim("3", m) for m in ["CR", "IR", "AR"]]
    mod = [dim("3", m) for m in ["MAV", "MAC", "MPR", "MUI", "MS", "MC", "MI", "MA"]]
    # T0: all 2 592 base x 100 temporal spellings, in two layouts so that every base and temporal metric is
    # an inner dimension once (monotonicity) while rows stay large
    tabs.append(header("3", minor, {}, b5, cia + tmp_sp))
    tabs.append(header("3", minor, {}, tmp_sp, b5 + cia))
    # Modified Scope and Modified Privileges Required written alone (nothing else modified): every base vector
    tabs.append(header("3", minor, {}, b5, cia + [dim("3", "MS", absent=True), dim("3", "MPR", absent=True),
                                                  tuple_dim("R", ["CR", "IR", "AR"], [("-", "-", "-"), ("L", "L", "L"), ("H", "M", "L")])]))
    t48 = list(itertools.product("UPFH", "OTWU", "URC"))
    baseU = {"AV": "N", "AC": "L", "PR": "L", "UI": "N", "S": "U", "C": "H", "I": "L", "A": "N"}
    baseC = {"AV": "A", "AC": "H", "PR": "H", "UI": "R", "S": "C", "C": "L", "I": "H", "A": "H"}
    if tier == "quick":
        tsel = [("-", "-", "-")] + rnd.sample(t48, 2)
        tdim = tuple_dim("T", ["E", "RL", "RC"], tsel)
        # T1 (modified metrics absent: inheritance path), every base x every requirement spelling
        tabs.append(header("3", minor, {}, b5 + [tdim], cia + req64))
        # T2 (modified metrics spelled) over one S:U and one S:C base vector
        tsel2 = [("-", "-", "-")] + rnd.sample(t48, 1)
        tdim2 = tuple_dim("T", ["E", "RL", "RC"], tsel2)
        for bv in (baseU, baseC):
            tabs.append(header("3", minor, bv, mod[:5] + [tdim2], mod[5:] + req27))
        # transposes on a sub-product, so that the exploitability-side modified metrics are inner once
        tabs.append(header("3", minor, baseU, mod[5:] + [tuple_dim("R", ["CR", "IR", "AR"], rnd.sample(list(itertools.product("LMH", repeat=3)), 3))],
                           mod[:5]))
    else:
        tabs.append(header("3", minor, {}, b5 + cia[:1], cia[1:] + req64 + tmp48))        # T1 complete: 2592*64*48
        for bv in (baseU, baseC):
            tabs.append(header("3", minor, bv, mod[:5] + mod[5:6], mod[6:] + req27 + tmp48))   # T2 complete
        tabs.append(header("3", minor, baseU, mod[5:] + req27, mod[:5]))
        tabs.append(header("3", minor, baseC, mod[5:] + req27, mod[:5]))
        tabs.append(header("3", minor, {}, cia + req64, b5))
    # the exploitability metrics and Scope as the *inner* dimensions under every spelling of Modified Scope (absent, X, U, C) and three
    # requirement triples: steps of S (and AV, AC, PR, UI) while MS stays fixed - with MS given, the environmental score may not depend on S
    tabs.append(header("3", minor, {}, cia + [dim("3", "MS", absent=True), tuple_dim("R", ["CR", "IR", "AR"], [("-", "-", "-"), ("L", "L", "L"), ("H", "M", "L")])], b5))
    return tabs


def v2_tables(tier, seed):
    rnd = random.Random(seed * 7919 + 2)
    tabs = []
    b3 = [dim("2", m) for m in ["AV", "AC", "Au"]]
    cia = [dim("2", m) for m in ["C", "I", "A"]]
    tmp_sp = [dim("2", m, absent=True) for m in ["E", "RL", "RC"]]
    req27 = [dim("2", m) for m in ["CR", "IR", "AR"]]
    t48 = list(itertools.product(V["2"]["E"], V["2"]["RL"], V["2"]["RC"]))
    e20 = list(itertools.product(V["2"]["CDP"], V["2"]["TD"]))
    # base/temporal: all 729 x 100 temporal spellings (incl. absent), in two layouts
    tabs.append(header("2", -1, {}, b3, cia + tmp_sp))
    tabs.append(header("2", -1, {}, tmp_sp, b3 + cia))
    if tier == "quick":
        # environmental: every base x every L/M/H requirement triple (= every base and adjusted base
        # value) x seeded temporal / environmental cases; four differently seeded tables
        for k in range(2):
            tsel = [("-", "-", "-")] + rnd.sample(t48, 2)
            esel = [("-", "-")] + rnd.sample(e20, 2)
            tabs.append(header("2", -1, {}, b3 + cia[:2],
                               cia[2:] + req27 + [tuple_dim("T", ["E", "RL", "RC"], tsel), tuple_dim("Env", ["CDP", "TD"], esel)]))
    else:
        tabs.append(header("2", -1, {}, b3 + cia + req27[:1], req27[1:] +
                           [tuple_dim("T", ["E", "RL", "RC"], [("-", "-", "-")] + t48),
                            tuple_dim("Env", ["CDP", "TD"], [("-", "-")] + e20)]))
    # every base vector x requirement spellings that are absent / ND / M (weight 1.0: where the AdjustedImpact cap is the only
    # difference to Impact) or mixed x environmental groups defined by CDP / TD only or not at all x two temporal cases
    rq = tuple_dim("R", ["CR", "IR", "AR"], [("-", "-", "-"), ("ND", "ND", "ND"), ("M", "M", "M"), ("ND", "M", "-"), ("H", "-", "ND"), ("L", "ND", "M")])
    en = tuple_dim("Env", ["CDP", "TD"], [("-", "-"), ("N", "-"), ("-", "H"), ("ND", "H"), ("L", "M"), ("H", "N")])
    tabs.append(header("2", -1, {}, b3, cia + [rq, en, tuple_dim("T", ["E", "RL", "RC"], [("-", "-", "-"), ("F", "-", "ND")])]))
    # ND table: requirement spellings containing ND / absent, groups that consist only of ND/absent
    reqnd = [dim("2", m, absent=True, nd=True) for m in ["CR", "IR", "AR"]]
    tnd = tuple_dim("T", ["E", "RL", "RC"], [("-", "-", "-"), ("ND", "-", "-"), ("-", "ND", "ND"), ("ND", "ND", "ND"),
                                            ("F", "-", "-"), ("ND", "W", "ND"), ("-", "-", "UR")])
    end = tuple_dim("Env", ["CDP", "TD"], [("-", "-"), ("ND", "-"), ("-", "ND"), ("ND", "ND"), ("L", "-"), ("ND", "M"), ("N", "N"), ("H", "H")])
    if tier == "quick":
        tabs.append(header("2", -1, {"AV": "N", "AC": "L", "Au": "N"}, cia, reqnd + [tnd, end]))
        tabs.append(header("2", -1, {"AV": "L", "AC": "H", "Au": "M"}, cia, reqnd + [tnd, end]))
    else:
        tabs.append(header("2", -1, {}, b3 + cia, reqnd + [tnd, end]))
    return tabs


def pair_dim(ver, b, values=None):
    """a base metric and its modified twin in every equivalent spelling: b:v | b:v + Mb:X | b:v + Mb:v"""
    opts = []
    for v in (values or V[ver][b]):
        opts += [{b: v}, {b: v, "M" + b: ND[ver]}, {b: v, "M" + b: v}]
    return {"name": b + "/M" + b, "opts": opts}


def nd_dim(ver, m, equiv, extra=()):
    """absent | Not Defined | the value the standard declares equivalent (| other values)"""
    return {"name": m, "opts": [{}, {m: ND[ver]}, {m: equiv}] + [{m: x} for x in extra]}


def sp(ver, m, values=None):
    """a metric in every spelling: absent, Not Defined, every defined value"""
    return {"name": m, "opts": [{}, {m: ND[ver]}] + [{m: v} for v in (values if values is not None else V[ver].get(m, []))]}


def eq_tables(tier, seed):
    """products over *optional* metrics in every spelling (absent / Not Defined / each value) on fixed base vectors: all objects of a
    row go into one Python set; TLC computes how many distinct objects the specification's equality admits"""
    tabs = []
    b2 = {"AV": "N", "AC": "L", "Au": "N", "C": "P", "I": "P", "A": "P"}
    tabs.append(header("2", -1, b2, [dim("2", "C")], [sp("2", m) for m in ["E", "RL", "RC", "CDP", "TD"]]))            # 6*6*5*7*6 = 7560
    tabs.append(header("2", -1, b2, [dim("2", "A")], [sp("2", m) for m in ["RC", "CDP", "TD", "CR", "IR", "AR"]]))      # 5*7*6*5*5*5 = 26250
    b3 = {"AV": "N", "AC": "L", "PR": "L", "UI": "N", "S": "U", "C": "H", "I": "L", "A": "N"}
    for minor in (0, 1):
        tabs.append(header("3", minor, b3, [dim("3", "S")], [sp("3", m) for m in ["E", "RL", "RC", "CR", "IR", "AR"]]))          # 6*6*5*5*5*5
        tabs.append(header("3", minor, b3, [dim("3", "PR")], [sp("3", m) for m in ["MAV", "MAC", "MPR", "MUI", "MS", "AR"]]))     # 6*4*5*4*4*5
        tabs.append(header("3", minor, b3, [dim("3", "C")], [sp("3", m) for m in ["MS", "MC", "MI", "MA", "CR", "RC"]]))          # 4*5*5*5*5*5
    ex4 = ["N", "Y"]
    v4x = {"S": "NP", "AU": "NY", "R": "AUI", "V": "DC", "RE": "LMH", "U": ["Clear", "Green", "Amber", "Red"],
           "MAV": "NALP", "MAC": "LH", "MAT": "NP", "MPR": "NLH", "MUI": "NPA", "MVC": "HLN", "MVI": "HLN", "MVA": "HLN", "MSC": "HLN", "MSI": "SHLN", "MSA": "SHLN"}
    f4 = dict(BASE4_N)
    tabs.append(header("4", -1, f4, [dim("4", "AV", values="NP")], [sp("4", "E"), sp("4", "CR"), sp("4", "IR"), sp("4", "AR")] + [sp("4", m, v4x[m]) for m in ["S", "AU", "U"]]))   # 5*5*5*5*4*4*6
    tabs.append(header("4", -1, f4, [dim("4", "AV", values="NP")], [sp("4", m, v4x[m]) for m in ["R", "V", "RE", "MAV", "MAC", "MAT"]] + [sp("4", "E")]))
    tabs.append(header("4", -1, f4, [dim("4", "AV", values="NP")], [sp("4", m, v4x[m]) for m in ["MPR", "MUI", "MVC", "MVI", "MSI", "U"]]))
    tabs.append(header("4", -1, f4, [dim("4", "AV", values="NP")], [sp("4", m, v4x[m]) for m in ["MVA", "MSC", "MSA", "S", "RE"]] + [sp("4", "AR")]))
    return tabs


def equiv_tables(tier, seed):
    """layouts whose inner dimensions contain *equivalent* spellings (absent / Not Defined / equivalent value; modified metric
    absent / X / equal to its base metric): TLC (Mode=equiv) finds the equivalent option pairs itself and demands equal scores"""
    rnd = random.Random(seed * 7919 + 66)
    tabs = []
    # v2: every base vector; requirements, CDP/TD and temporal metrics in equivalent spellings
    b3 = [dim("2", m) for m in ["AV", "AC", "Au"]]
    cia = [dim("2", m) for m in ["C", "I", "A"]]
    rq = tuple_dim("R", ["CR", "IR", "AR"], [("-", "-", "-"), ("ND", "ND", "ND"), ("M", "M", "M"), ("ND", "M", "-"), ("H", "L", "M"), ("H", "L", "ND")])
    en = tuple_dim("Env", ["CDP", "TD"], [("-", "-"), ("N", "-"), ("ND", "H"), ("-", "H"), ("N", "H"), ("L", "M"), ("L", "ND")])
    tm = tuple_dim("T", ["E", "RL", "RC"], [("-", "-", "-"), ("H", "U", "C"), ("ND", "ND", "ND"), ("H", "-", "ND"), ("F", "W", "UR"), ("F", "W", "-")])
    tabs.append(header("2", -1, {}, b3, cia + [rq, en, tm]))
    for minor in (0, 1):
        # v3: every base vector; requirements and temporal metrics in equivalent spellings
        b5 = [dim("3", m) for m in ["AV", "AC", "PR", "UI", "S"]]
        c3 = [dim("3", m) for m in ["C", "I", "A"]]
        rq3 = tuple_dim("R", ["CR", "IR", "AR"], [("-", "-", "-"), ("X", "X", "X"), ("M", "M", "M"), ("M", "X", "-"), ("H", "L", "M"), ("H", "L", "X")])
        tm3 = tuple_dim("T", ["E", "RL", "RC"], [("-", "-", "-"), ("X", "X", "X"), ("H", "U", "C"), ("H", "X", "-"), ("F", "T", "R"), ("F", "T", "-")])
        tabs.append(header("3", minor, {}, b5, c3 + [rq3, tm3]))
        # v3: exploitability metrics with their modified twins, under every Scope / Modified Scope pair
        ms = {"name": "MS", "opts": [{}, {"MS": "X"}, {"MS": "U"}, {"MS": "C"}]}
        imp = tuple_dim("CIA", ["C", "I", "A"], [("H", "H", "H"), ("L", "N", "H"), ("N", "L", "N")])
        tabs.append(header("3", minor, {}, [dim("3", "S"), ms, imp], [pair_dim("3", b) for b in ["AV", "AC", "PR", "UI"]]))
        # v3: impact metrics with their modified twins
        ex = tuple_dim("EX", ["AV", "AC", "PR", "UI"], [("N", "L", "N", "N"), ("L", "H", "L", "R"), ("P", "L", "H", "N")])
        tabs.append(header("3", minor, {}, [dim("3", "S"), ms, ex, dim("3", "CR", absent=True, values="H")], [pair_dim("3", b) for b in ["C", "I", "A"]]))
    # v4: exploitability metrics with their modified twins
    imp4 = tuple_dim("IMP", ["VC", "VI", "VA", "SC", "SI", "SA"], [("H", "H", "H", "N", "N", "N"), ("L", "N", "H", "H", "L", "N"), ("N", "L", "N", "L", "H", "H"), ("H", "L", "L", "N", "N", "L")])
    tabs.append(header("4", -1, {}, [imp4, dim("4", "E", absent=True, values="P")], [pair_dim("4", b) for b in ["AV", "AC", "AT", "PR", "UI"]]))
    # v4: impact metrics with their modified twins
    ex4 = tuple_dim("EX", ["AV", "AC", "AT", "PR", "UI"], [("N", "L", "N", "N", "N"), ("A", "H", "P", "L", "P"), ("P", "L", "N", "H", "A"), ("L", "L", "P", "N", "A")])
    tabs.append(header("4", -1, {"SC": "L", "SI": "N", "SA": "H"}, [ex4, dim("4", "CR", absent=True, values="LM")], [pair_dim("4", b) for b in ["VC", "VI", "VA"]]))
    tabs.append(header("4", -1, {"VC": "L", "VI": "H", "VA": "N"}, [ex4, dim("4", "AR", absent=True, values="LM")], [pair_dim("4", b) for b in ["SC", "SI", "SA"]]))
    # v4: threat and requirement metrics absent / X / equivalent, over every exploitability context and vulnerable-system impact
    tabs.append(header("4", -1, {"SC": "N", "SI": "L", "SA": "N"}, [dim("4", m) for m in ["AV", "PR", "UI", "AC", "AT"]],
                       [dim("4", m) for m in ["VC", "VI", "VA"]] + [nd_dim("4", "E", "A"), nd_dim("4", "CR", "H"), nd_dim("4", "IR", "H"), nd_dim("4", "AR", "H")]))
    return tabs


# ------------------------------------------------------------------------------------------
def record(tabs, work, seed, c09=False, name="tab", rows=None, nsamples=2, max_entries_per_file=4000000, eqsets=False):
    """Run the real constructors over all rows of `tabs`.  Returns a list of trace files, each a
    JSON object {tables, rows} of at most max_entries_per_file entries; plus totals."""
    allrows = rows if rows is not None else [r for t, h in enumerate(tabs, 1) for r in rows_of(t, h)]
    sizes = [size_inner(h) for h in tabs]
    total = sum(sizes[r[0] - 1] for r in allrows)
    # shard rows into jobs of roughly equal entry counts
    njobs = max(1, min(len(allrows), 64))
    jobs = [[] for _ in range(njobs)]
    load = [0] * njobs
    for r in sorted(allrows, key=lambda r: -sizes[r[0] - 1]):
        k = load.index(min(load))
        jobs[k].append(r)
        load[k] += sizes[r[0] - 1]
    specs = []
    for k, rs in enumerate(jobs):
        if rs:
            specs.append({"out": os.path.join(work, "%s.%d.json" % (name, k)), "tables": tabs, "rows": rs,
                          "nsamples": nsamples, "seed": seed + k, "c09": c09, "eqsets": eqsets, "warm": k % 2 == 1})
    run_driver("tables.py", specs, work, name=name)
    files, cur, cur_n, fno = [], [], 0, 0

    def flush():
        nonlocal cur, cur_n, fno
        if cur:
            p = os.path.join(work, "%s.trace.%d.json" % (name, fno))
            with open(p, "w") as fh:
                json.dump({"tables": tabs, "rows": cur}, fh, separators=(",", ":"))
            files.append((p, len(cur), cur_n))
            cur, cur_n = [], 0
            fno += 1
    for sp in specs:
        d = json.load(open(sp["out"]))
        os.remove(sp["out"])
        for row in d["rows"]:
            n = sizes[row["t"] - 1]
            if cur_n + n > max_entries_per_file:
                flush()
            cur.append(row)
            cur_n += n
    flush()
    return files, total


ORDER_SPELL = {
    "2": ["AV", "AC", "Au", "C", "I", "A", "E", "RL", "RC", "CDP", "TD", "CR", "IR", "AR"],
    "3": ["AV", "AC", "PR", "UI", "S", "C", "I", "A", "E", "RL", "RC", "CR", "IR", "AR", "MAV", "MAC", "MPR", "MUI", "MS", "MC", "MI", "MA"],
    "4": ["AV", "AC", "AT", "PR", "UI", "VC", "VI", "VA", "SC", "SI", "SA", "E", "CR", "IR", "AR", "MAV", "MAC", "MAT", "MPR", "MUI", "MVC", "MVI",
          "MVA", "MSC", "MSI", "MSA", "S", "AU", "R", "V", "RE", "U"]}


def vector_at(h, o, j):
    """the vector string of entry j (0-based inner index) of row o of table h"""
    g = dict(h["fixed"])
    for d, dm in enumerate(h["outer"]):
        g.update(dm["opts"][o[d] - 1])
    rad = [len(d["opts"]) for d in h["inner"]]
    idx = []
    for r in reversed(rad):
        idx.append(j % r)
        j //= r
    idx.reverse()
    for d, dm in enumerate(h["inner"]):
        g.update(dm["opts"][idx[d]])
    pre = "" if h["ver"] == "2" else ("CVSS:3.%d/" % h["minor"] if h["ver"] == "3" else "CVSS:4.0/")
    return pre + "/".join("%s:%s" % (m, g[m]) for m in ORDER_SPELL[h["ver"]] if m in g)


def score_representatives(tabs, work, seed, name="rep"):
    """one vector per distinct observed score value of every (version, slot), found by recording the tables: a corpus that is
    stratified by what the library *outputs* (every score value incl. any out-of-range one, every band edge)"""
    files, total = record(tabs, work, seed, name=name, nsamples=0, max_entries_per_file=10 ** 12)
    reps = {}
    for path, nr, nent in files:
        d = json.load(open(path))
        for row in d["rows"]:
            h = tabs[row["t"] - 1]
            sl = h["slots"]
            obs = row["obs"]
            for k in range(0, len(obs), sl):
                for s in range(sl):
                    key = (h["ver"], s, obs[k + s])
                    if key not in reps:
                        reps[key] = (h["ver"], vector_at(h, row["o"], k // sl))
        os.remove(path)
    return sorted(set(reps.values())), total


def spec_rows(tabs, work, name="spec"):
    """Trace file for Mode = "spec": rows without observations."""
    rows = [{"t": r[0], "o": r[1], "obs": [], "samples": []} for t, h in enumerate(tabs, 1) for r in rows_of(t, h)]
    p = os.path.join(work, name + ".json")
    with open(p, "w") as fh:
        json.dump({"tables": tabs, "rows": rows}, fh, separators=(",", ":"))
    return p, len(rows)
