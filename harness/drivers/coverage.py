# -*- coding: utf-8 -*-
"""Driver: which candidate vectors are needed to reach every line-to-line transition (arc) of the library that any candidate
reaches?  Each candidate is constructed and observed under a line tracer restricted to the working tree's cvss/ package; a greedy
cover picks, per job, a small set of candidates that together reach every arc seen in the job (external instrumentation only:
sys.settrace, nothing added to the repository).

argv[1] = job file {"out": path, "cands": [[ver, escaped string], ...]}
output: {"chosen": [[ver, s, [arc ids...]], ...], "arcs": n}   (arc ids are strings "file:from>to")"""
from __future__ import print_function, unicode_literals
import sys, json, io, os
from obs import unesc, observe, hb_iter
import cvss
from cvss import CVSS2, CVSS3, CVSS4

CLS = {"2": CVSS2, "3": CVSS3, "4": CVSS4}
ROOT = os.path.dirname(os.path.abspath(cvss.__file__))


def main():
    job = json.load(io.open(sys.argv[1], encoding="utf-8"))
    seen = None
    last = {}

    def tracer(frame, event, arg):
        fn = frame.f_code.co_filename
        if not fn.startswith(ROOT):
            return None
        if event == "call":
            last[id(frame)] = -1
            return tracer
        if event == "line":
            key = id(frame)
            seen.add((os.path.basename(fn), last.get(key, -1), frame.f_lineno))
            last[key] = frame.f_lineno
        elif event == "return":
            last.pop(id(frame), None)
        return tracer
    per = []
    for ver, s in hb_iter(job["cands"]):
        seen = set()
        last.clear()
        sys.settrace(tracer)
        try:
            try:
                obj = CLS[ver](unesc(s))
                observe(obj, ver, with_json=True)
                obj.from_rh_vector(obj.rh_vector())
                obj == obj
                hash(obj)
            except Exception:  # noqa
                pass
        finally:
            sys.settrace(None)
        per.append(seen)
    universe = set()
    for a in per:
        universe |= a
    uncovered = set(universe)
    chosen = []
    while uncovered:
        k = max(range(len(per)), key=lambda i: len(per[i] & uncovered))
        gain = per[k] & uncovered
        if not gain:
            break
        chosen.append([job["cands"][k][0], job["cands"][k][1], sorted("%s:%d>%d" % a for a in per[k])])
        uncovered -= gain
    with io.open(job["out"], "w", encoding="utf-8") as fh:
        data = json.dumps({"chosen": chosen, "arcs": len(universe)})
        fh.write(data if sys.version_info[0] > 2 else data.decode("ascii"))


if __name__ == "__main__":
    main()
