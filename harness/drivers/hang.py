# -*- coding: utf-8 -*-
"""Selftest driver for Returns.tla's binding: goes through its items like every driver (heartbeat per item); an item
{"spin": true} never comes back and uses the processor, {"block": true} never comes back and does not, others return at once."""
from __future__ import print_function, unicode_literals
import sys, json, io, time
from obs import hb_iter


def main():
    job = json.load(io.open(sys.argv[1], encoding="utf-8"))
    for it in hb_iter(job["items"]):
        if it.get("spin"):
            while True:
                pass
        if it.get("block"):
            while True:
                time.sleep(3600)
    with io.open(job["out"], "w", encoding="utf-8") as fh:
        fh.write("[]")


if __name__ == "__main__":
    main()
