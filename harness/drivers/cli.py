# -*- coding: utf-8 -*-
"""Driver: the command-line calculator as a subprocess (python -m cvss.cvss_calculator) plus, in
this process, what the library API reports for the vector in play (python 2.7 / 3.x common).

argv[1] = job file {"out": path, "items": [{"args": [...], "stdin": [answers...]}]}"""
from __future__ import print_function, unicode_literals
import sys, json, io, os, subprocess
from obs import esc, unesc, observe, jsonval, hb_iter
from interactive import session

CLS = None
BVERS = ["2", "3.0", "3.1", "4.0"]


def lib_outcome(bver, vec):
    import cvss
    cls = {"2": cvss.CVSS2, "3.0": cvss.CVSS3, "3.1": cvss.CVSS3, "4.0": cvss.CVSS4}[bver]
    ver = {"2": "2", "3.0": "3", "3.1": "3", "4.0": "4"}[bver]
    try:
        obj = cls(vec)
    except cvss.CVSSError as e:
        return {"cls": "error", "msg": esc("%s" % e)}
    except Exception as e:  # noqa
        return {"cls": "crash", "msg": type(e).__name__}
    o = observe(obj, ver, with_json=False)
    o["cls"] = "ok"
    o["strs"] = ["%s" % x for x in obj.scores()]
    from collections import OrderedDict
    doc = json.loads(json.dumps(obj.as_json(sort=True, minimal=True)), object_pairs_hook=OrderedDict)
    o["json_sm"] = [[esc(k)] + jsonval(v) for k, v in doc.items()]
    return o


def main():
    job = json.load(io.open(sys.argv[1], encoding="utf-8"))
    res = []
    env0 = dict(os.environ)
    for it in hb_iter(job["items"]):
        env = dict(env0)
        env.update(it.get("env", {}))
        args = [unesc(a) for a in it["args"]]
        answers = [unesc(a) for a in it.get("stdin", [])]
        argv = [unesc(a) for a in it.get("argv", it["args"])]          # what is typed; args is its normalised form
        closed = it.get("close", "")            # the calculator started with its standard output / error descriptor closed (">&-", "2>&-")
        p = subprocess.Popen([sys.executable, "-B"] + it.get("pyflags", []) + ["-m", "cvss.cvss_calculator"] + argv, stdin=subprocess.PIPE,
                             stdout=subprocess.PIPE, stderr=subprocess.PIPE, env=env,
                             preexec_fn=(lambda: os.close({"stdout": 1, "stderr": 2}[closed])) if closed else None)
        data = "".join(a + "\n" for a in answers).encode("utf-8")
        out, err = p.communicate(data)
        out = out.decode("utf-8", "replace")
        err = err.decode("utf-8", "replace")
        ev = {"closed": closed, "args": it["args"], "argv": it.get("argv", it["args"]), "stdin": it.get("stdin", []), "rc": p.returncode,
              "stdout": [esc(l.rstrip("\r")) for l in out.split("\n")], "stdout_text": esc(out), "stderr": esc(err)[:400],
              "traceback": "Traceback" in err}
        # the JSON document found in stdout, if any
        ev["json_doc"] = []
        ev["json_found"] = False
        if "{" in out and "}" in out:
            try:
                from collections import OrderedDict
                doc = json.loads(out[out.index("{"):out.rindex("}") + 1], object_pairs_hook=OrderedDict)
                ev["json_doc"] = [[esc(k)] + jsonval(v) for k, v in doc.items()]
                ev["json_found"] = True
            except Exception:  # noqa
                pass
        # reference: the vector in play and the library's outcome, per candidate version
        vec_arg = None
        for k, a in enumerate(args):
            if a in ("-v", "--vector") and k + 1 < len(args):
                vec_arg = args[k + 1]
        allm = ("-a" in args) or ("--all" in args)
        ref = {}
        for b in BVERS:
            if vec_arg:
                vec = {"kind": "Return", "value": vec_arg}
            else:
                s = session({"bver": b, "all": allm, "no_colors": True, "script": [esc(a) for a in answers]})
                last = s["events"][-1]
                vec = {"kind": last["ev"], "value": unesc(last.get("value", ""))}
            r = {"kind": vec["kind"], "vector": esc(vec["value"])}
            if vec["kind"] == "Return":
                r["lib"] = lib_outcome(b, vec["value"])
            else:
                r["lib"] = {"cls": "none"}
            ref[b] = r
        ev["ref"] = ref
        res.append(ev)
    data = json.dumps(res, separators=(",", ":"), ensure_ascii=True)
    with io.open(job["out"], "w", encoding="utf-8") as fh:
        fh.write(data if sys.version_info[0] > 2 else data.decode("ascii"))


if __name__ == "__main__":
    main()
