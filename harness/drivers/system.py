# -*- coding: utf-8 -*-
"""Driver for C18 / C19: histories of calls in one process, with digests of every result, of the
object's complete state, of the process globals and of anything written to stdout/stderr.

argv[1] = job file {"out": path, "items": [history...]}; a history is
  {"kind": "accessors", "ver", "s", "calls": [accessor...]}
  {"kind": "history", "steps": [["new", ver, s] | ["fromrh", ver, s] | ["text", t] | ["call", k, accessor]]}
  {"kind": "config", "prec": n, "rounding": name, "steps": [...]}          (PYTHONHASHSEED comes with the environment)
  {"kind": "schedule", "inputs": [[ver, s]...], "schedule": [thread index...]}   forced interleaving
  {"kind": "stress", "inputs": [[ver, s]...], "threads": n, "rounds": m}         free-running threads
  {"kind": "reference", "steps": [...]}   each step in a fresh interpreter: the reference digests"""
from __future__ import print_function, unicode_literals
import sys, json, io, os, hashlib, decimal, threading, warnings, subprocess, copy
import cvss
from cvss import CVSS2, CVSS3, CVSS4
from cvss.parser import parse_cvss_from_text
import cvss.interactive, cvss.cvss_calculator  # noqa - loaded up front: the digest of the library's module globals covers them from the start
from obs import esc, unesc, observe, json_obs, hb_iter, hb

CLS = {"2": CVSS2, "3": CVSS3, "4": CVSS4}
PIPELINE = ("parse_vector", "check_mandatory", "handle_scope", "add_missing_optional", "compute_base_score",
            "compute_temporal_score", "compute_environmental_score", "compute_severity")


def dig(x):
    return hashlib.sha1(json.dumps(x, sort_keys=True, default=repr).encode("utf-8")).hexdigest()[:16]


def deep(x, depth=0):
    if isinstance(x, dict):
        return ["dict", sorted([[repr(k), deep(v, depth + 1)] for k, v in x.items()])] if depth < 6 else "..."
    if isinstance(x, (list, tuple)):
        return [type(x).__name__, [deep(v, depth + 1) for v in x]]
    if isinstance(x, (set, frozenset)):
        return ["set", sorted(repr(v) for v in x)]
    return repr(x)


_LAZY = {"names": None}


def _is_lazy(v):
    """what a module or class binds to a name that is *not* a constant table: nothing yet (None) or an empty container - the usual
    shape of a cache or of lazily built data.  Filling such a thing is not "modifying a constant table"; if it makes results depend on
    history or schedule, the results show it."""
    return v is None or (isinstance(v, (dict, list, set)) and len(v) == 0)


def globals_digest():
    """digest of the library's constants (module- and class-level data that had a value when the driver started) and of the other
    process-global state a library must leave alone.  Names that were unbound, None or empty containers at the first call, and modules
    loaded later, are left out (see _is_lazy)."""
    first = _LAZY["names"] is None
    if first:
        _LAZY["names"] = {"modules": set(), "lazy": set(), "known": set()}
    reg = _LAZY["names"]
    mods = {}
    for name in sorted(sys.modules):
        if name == "cvss" or name.startswith("cvss."):
            if first:
                reg["modules"].add(name)
            elif name not in reg["modules"]:
                continue
            m = sys.modules[name]
            d = {}
            for k, v in sorted(vars(m).items()):
                if isinstance(v, type) and getattr(v, "__module__", "").startswith("cvss"):
                    # class-level (shared) data attributes of the library's classes are process-global state too
                    cd = {}
                    for a, x in sorted(vars(v).items()):
                        if a.startswith("__") or callable(x) or isinstance(x, (classmethod, staticmethod, property)):
                            continue
                        key = (name, k, a)
                        if first:
                            reg["known"].add(key)
                            if _is_lazy(x):
                                reg["lazy"].add(key)
                        if key in reg["lazy"] or key not in reg["known"]:
                            continue
                        cd[a] = deep(x)
                    d["class " + k] = cd
                    continue
                if k.startswith("__") or callable(v) or type(v).__name__ == "module":
                    continue
                key = (name, k)
                if first:
                    reg["known"].add(key)
                    if _is_lazy(v):
                        reg["lazy"].add(key)
                if key in reg["lazy"] or key not in reg["known"]:
                    continue
                d[k] = deep(v)
            mods[name] = d
    import logging, locale, signal, random as _random, gc, time
    root = logging.getLogger()

    def logger_state(lg):
        return [lg.level, lg.disabled, getattr(lg, "propagate", None), [type(h).__name__ for h in getattr(lg, "handlers", [])], [type(f).__name__ for f in getattr(lg, "filters", [])]]
    other = {"logging.root": logger_state(root), "logging.disable": logging.root.manager.disable,
             "logging.loggers": dict((n, logger_state(lg)) for n, lg in sorted(logging.root.manager.loggerDict.items()) if isinstance(lg, logging.Logger)),
             "logging.class": logging.getLoggerClass().__name__, "logging.raiseExceptions": logging.raiseExceptions,
             "locale": list(locale.getlocale()), "environ": sorted(os.environ.items()), "cwd": os.getcwd(),
             "signals": [repr(signal.getsignal(s)) for s in (signal.SIGINT, signal.SIGTERM, signal.SIGPIPE, signal.SIGALRM)] if threading.current_thread() is threading.main_thread() else [],
             "recursionlimit": sys.getrecursionlimit(), "switchinterval": sys.getswitchinterval(), "random": hashlib.sha1(repr(_random.getstate()).encode()).hexdigest(),
             "hooks": [sys.excepthook is sys.__excepthook__, sys.displayhook is sys.__displayhook__, threading.excepthook is threading.__excepthook__ if hasattr(threading, "__excepthook__") else None],
             "gc": [gc.isenabled(), list(gc.get_threshold())], "tz": list(time.tzname), "trace": [sys.gettrace() is None, sys.getprofile() is None],
             "json": [json.dumps.__module__, json.JSONEncoder.default.__qualname__ if hasattr(json.JSONEncoder.default, "__qualname__") else "", json.loads.__module__],
             "threads": threading.active_count(), "umask": None}
    ctx = decimal.getcontext()
    amb = {"other": other, "prec": ctx.prec, "rounding": ctx.rounding, "Emin": ctx.Emin, "Emax": ctx.Emax, "capitals": ctx.capitals,
           "traps": sorted(repr(k) for k, v in ctx.traps.items() if v), "flags_sticky": None,
           "sys.path": list(sys.path), "filters": [repr(f) for f in warnings.filters]}
    return dig([mods, amb])


def state_of(obj):
    """the object's attributes, whether it keeps them in a __dict__ or in __slots__"""
    st = dict(getattr(obj, "__dict__", {}) or {})
    for klass in type(obj).__mro__:
        for name in getattr(klass, "__slots__", ()) or ():
            if isinstance(name, str) and name not in ("__dict__", "__weakref__") and hasattr(obj, name):
                st[name] = getattr(obj, name)
    return st


def proj(obj):
    return dig(deep(state_of(obj))) if obj is not None else "-"


OTHER = {"2": "AV:N/AC:L/Au:N/C:P/I:P/A:C", "3": "CVSS:3.1/AV:N/AC:L/PR:N/UI:N/S:U/C:H/I:L/A:N",
         "4": "CVSS:4.0/AV:N/AC:L/AT:N/PR:N/UI:N/VC:H/VI:L/VA:N/SC:N/SI:N/SA:N"}


def behaves_differently(obj):
    """does the object observe differently from a freshly constructed object of the same input?"""
    try:
        ver = {CVSS2: "2", CVSS3: "3", CVSS4: "4"}[type(obj)]
        return dig(observe(obj, ver)) != dig(observe(type(obj)(obj.vector), ver))
    except Exception:  # noqa
        return True


class CopyBehavesDifferently(Exception):
    pass


class ComparisonChangedAnOperand(Exception):
    pass


def accessor(obj, ver, name):
    if name == "scores":
        return [repr(x) for x in obj.scores()]
    if name == "severities":
        return list(obj.severities())
    if name == "clean":
        return obj.clean_vector()
    if name == "clean_np":
        return obj.clean_vector(output_prefix=False) if ver != "2" else obj.clean_vector()
    if name == "rh":
        return obj.rh_vector()
    if name == "tv":
        return obj.temporal_vector() if ver != "4" else "-"
    if name == "ev":
        return obj.environmental_vector() if ver != "4" else "-"
    if name.startswith("json_"):
        d = obj.as_json(sort=(name[5] == "s"), minimal=(name[6] == "m"))
        return [[k, repr(v)] for k, v in d.items()]
    if name == "eq_self":
        # == and != against every kind of operand, both ways round: itself, a copy, objects of every class of the library (equal
        # text where that is a vector of the class, and a fixed other vector), instances of trivial subclasses, the classes
        # themselves, and foreign values
        res = [obj == obj, obj != obj, obj == copy.copy(obj)]
        operands = [None, "", obj.vector, 0, 7.5, (1,), [obj.vector], {"vectorString": obj.vector}, object(), decimal.Decimal("7.5"), NotImplemented, Ellipsis]
        for v_, cls in sorted(CLS.items()):
            operands.append(cls)
            sub = type(str("Sub" + v_), (cls,), {})
            for text in (obj.vector, OTHER[v_]):
                for k in (cls, sub):
                    try:
                        operands.append(k(text))
                    except Exception:  # noqa - not a vector of that class
                        pass
        # re-spelled twins of the object itself (equal objects that were written differently): fields reversed, one Not Defined field
        # swapped for another absent metric's, every absent metric spelled Not Defined, every Not Defined field dropped
        try:
            import importlib
            consts = importlib.import_module("cvss.constants" + ver)
            names = list(consts.METRICS_ABBREVIATIONS)
            nd = "ND" if ver == "2" else "X"
            pre, fields = ("", obj.vector.split("/")) if ver == "2" else (obj.vector.split("/")[0] + "/", obj.vector.split("/")[1:])
            have = [f.split(":")[0] for f in fields]
            absent = [m for m in names if m not in have and m not in consts.METRICS_MANDATORY]
            ndf = [f for f in fields if f.endswith(":" + nd)]
            texts = [pre + "/".join(reversed(fields)), pre + "/".join(fields + [m + ":" + nd for m in absent]), pre + "/".join(f for f in fields if f not in ndf)]
            for k_, f in enumerate(ndf[:3]):
                if absent:
                    texts.append(pre + "/".join([x for x in fields if x != f] + [absent[k_ % len(absent)] + ":" + nd]))
            for text in texts:
                try:
                    operands.append(CLS[ver](text))
                    operands.append(CLS[ver](text))          # twice: once compared obj-first, once twin-first (consecutive positions)
                except Exception:  # noqa
                    pass
        except Exception:  # noqa - the tables are only used to find names to spell; without them there are simply fewer operands
            pass
        state0 = proj(obj)
        for k_, o in enumerate(operands):
            if k_ % 2:          # which way round comes first alternates (a comparison is a read-only use of *both* operands)
                r4 = [bool(o != obj), bool(o == obj), bool(obj != o), bool(obj == o)]
                res += [r4[3], r4[1], r4[2], r4[0]]
            else:
                res += [bool(obj == o), bool(o == obj), bool(obj != o), bool(o != obj)]
            if proj(obj) != state0:          # checked after every operand: a later comparison may put things back
                if behaves_differently(obj):
                    raise ComparisonChangedAnOperand()
                state0 = proj(obj)          # attributes changed, behaviour did not: not what the property is about
        res.append(sum(1 for o in operands if isinstance(o, tuple(CLS.values())) and o in [obj]))
        # a value behaves the same after being copied (copy, deepcopy, pickle round trips); where it cannot be copied nothing is claimed
        import pickle
        mine = dig(observe(obj, ver))
        for how in (copy.copy, copy.deepcopy, lambda o: pickle.loads(pickle.dumps(o)), lambda o: pickle.loads(pickle.dumps(o, 2))):
            try:
                twin = how(obj)
            except Exception:  # noqa
                continue
            if dig(observe(twin, ver)) != mine or not (twin == obj) or hash(twin) != hash(obj):
                raise CopyBehavesDifferently()
        return res
    if name == "hash":
        return hash(obj) == hash(obj.clean_vector())
    if name == "internals":
        # the public intermediate quantities (Internals.tla): pure functions of the object like every other accessor
        # (they are not named by any property: where the library does not have them, there is nothing to call)
        try:
            return _internals(obj, ver)
        except AttributeError:
            return "not-available"
    if name == "mutate_json":
        # every option set returns a dictionary of the caller's own: edit each of them in every way a dictionary can be edited
        for sort_ in (False, True):
            for minimal_ in (False, True):
                d = obj.as_json(sort=sort_, minimal=minimal_)
                keys = list(d)
                d[keys[0]] = "clobbered"
                d["vectorString"] = None
                d["source"] = "the caller"
                d.pop(keys[-1])
                d2 = obj.as_json(sort=sort_, minimal=minimal_)
                d2.clear()
        return "mutated"
    raise ValueError(name)


def _internals(obj, ver):
    if ver == "4":
        return [obj.macroVector()] + [obj.m(b) for b in ("AV", "PR", "UI", "AC", "AT", "VC", "VI", "VA", "SC", "SI", "SA", "CR", "IR", "AR", "E")] + \
               [obj.get_value_description(b) for b in sorted(obj.metrics)]
    if ver == "3":
        return [str(getattr(obj, a)) for a in ("isc_base", "isc", "esc", "modified_isc_base", "modified_isc", "modified_esc")] + \
               [str(obj.get_value(b)) for b in sorted(obj.metrics)] + [obj.get_value_description(b) for b in sorted(obj.metrics)]
    return [str(obj.impact_equation()), str(obj.adjusted_impact_equation()), str(obj.base_score_equation()), str(obj.base_score_equation(adjusted_impact=True)),
            str(obj.temporal_score_equation()), str(obj.temporal_score_equation(adjusted_impact=True))] + \
           [str(obj.get_value(b)) for b in sorted(obj.metrics)] + [obj.get_value_description(b) for b in sorted(obj.metrics)]


class Capture(object):
    def __init__(self):
        self.n = 0

    def write(self, s):
        self.n += len(s)
        return len(s)

    def flush(self):
        pass


def do_step(step, objs):
    """returns (label, result digest, exc name, object index touched or None)"""
    op = step[0]
    try:
        if op in ("new", "fromrh"):
            ver, s = step[1], unesc(step[2])
            obj = CLS[ver].from_rh_vector(s) if op == "fromrh" else CLS[ver](s)
            objs.append(obj)
            # "bare" constructions are not observed: the object is pristine until the first accessor call of the history
            return "%s:%s:%s" % (op, ver, step[2]), ("constructed" if len(step) > 3 and step[3] == "bare" else dig(observe(obj, ver))), "-", len(objs) - 1
        if op == "copy":
            k, how = step[1], step[2]
            if k >= len(objs) or objs[k] is None:
                return "copy:no-object-%d" % k, "no-object", "-", None
            import pickle
            src = objs[k]
            ver = {CVSS2: "2", CVSS3: "3", CVSS4: "4"}[type(src)]
            try:
                twin = [copy.copy, copy.deepcopy, lambda o: pickle.loads(pickle.dumps(o)), lambda o: pickle.loads(pickle.dumps(o, 2))][how](src)
            except Exception:  # noqa - an object that cannot be copied that way: nothing is claimed, the original stands in
                twin = src
            objs.append(twin)
            # a copy is labelled as a construction from the original's input: it must be the same function of that input (System.tla: Copy)
            return "new:%s:%s" % (ver, esc(src.vector)), dig(observe(twin, ver)), "-", len(objs) - 1
        if op == "text":
            res = parse_cvss_from_text(unesc(step[1]))
            return "text:%s" % step[1], dig(sorted([type(r).__name__, r.vector, r.clean_vector()] for r in res)), "-", None
        if op == "lowprec":
            # a caller that works under a decimal context of its own (a handful of digits, any rounding, optionally the Inexact trap)
            # makes a call; what that call gives is the caller's business and is not judged, but it is part of the history of the
            # process: nothing it leaves behind may change what later calls under an ordinary context give
            with decimal.localcontext() as ctx_:
                ctx_.prec, ctx_.rounding = step[1], getattr(decimal, step[2])
                if len(step) > 4 and step[4]:
                    ctx_.traps[decimal.Inexact] = True
                try:
                    do_step(step[3], [])
                except BaseException:  # noqa
                    pass
            return "lowprec:%s" % json.dumps(step[1:]), "not-judged", "-", None
        if op in ("ask", "cli"):
            # entry points: they own the terminal while they run (their output is theirs), everything else is judged as for any call
            class _In(object):
                def __init__(self, lines):
                    self.lines = list(lines)

                def readline(self, *a):
                    return (self.lines.pop(0) + "\n") if self.lines else ""

                def isatty(self):
                    return False
            saved = sys.stdin, sys.stdout, sys.stderr, sys.argv
            sink = io.StringIO() if sys.version_info[0] > 2 else io.BytesIO()
            sys.stdin, sys.stdout, sys.stderr = _In([unesc(a) for a in step[3]]), sink, sink
            try:
                try:
                    if op == "ask":
                        from cvss.interactive import ask_interactively
                        res = ask_interactively({"2": 2, "3.0": 3.0, "3.1": 3.1, "4.0": 4.0}[step[1]], step[2], True)
                    else:
                        from cvss import cvss_calculator
                        sys.argv = ["cvss_calculator"] + [unesc(a) for a in step[1]]
                        try:
                            cvss_calculator.main()
                            res = "returned"
                        except SystemExit as e:
                            res = "exit:%s" % (e.code,)
                except EOFError:
                    res = "EOFError"
            finally:
                sys.stdin, sys.stdout, sys.stderr, sys.argv = saved
            return "%s:%s" % (op, json.dumps(step[1:])), dig(res), "-", None
        if op == "call":
            k, acc = step[1], step[2]
            if k >= len(objs) or objs[k] is None:
                return "call:no-object-%d:%s" % (k, acc), "no-object", "-", None
            ver = {CVSS2: "2", CVSS3: "3", CVSS4: "4"}[type(objs[k])]
            # the label names the object by its own input, so that equal labels mean the same call on an equal object
            return "call:%s:%s:%s" % (ver, esc(objs[k].vector), acc), dig(accessor(objs[k], ver, acc)), "-", k
    except Exception as e:  # noqa - a failed construction creates no object (as in System.tla)
        return "%s:%s" % (op, ":".join(str(x) for x in step[1:])), "raised", type(e).__name__, None
    raise ValueError(op)


def run_steps(steps, ref=None):
    objs, out, made = [], [], []
    cap = Capture()
    old = sys.stdout, sys.stderr
    sys.stdout = sys.stderr = cap
    try:
        for k, st in enumerate(steps):
            before = cap.n
            target = st[1] if st[0] == "call" and st[1] < len(objs) else None
            p0 = proj(objs[target]) if target is not None and objs[target] is not None else "-"
            others0 = [proj(o) for o in objs]
            label, res, exc, touched = do_step(st, objs)
            p1 = proj(objs[target]) if target is not None and objs[target] is not None else "-"
            others1 = [proj(o) for o in objs[:len(others0)]]
            # a change of an object's attributes is only the *trigger*: what counts is whether the object now behaves differently from a
            # freshly built one of the same input (an internal memo that changes nothing observable is not what the property forbids)
            changed = [k_ for k_, (a_, b_) in enumerate(zip(others0, others1)) if a_ != b_ and objs[k_] is not None]
            real = [k_ for k_ in changed if behaves_differently(objs[k_])]
            if not real:
                p1 = p0
            elif target in real:
                pass
            else:
                p1 = "another-object-changed"
            if target is not None and p0 != p1 and target not in real and p1 != "another-object-changed":
                p1 = p0
            if st[0] in ("new", "fromrh") and exc == "-":
                made.append(st)
            elif st[0] == "copy" and exc == "-" and res != "no-object":
                made.append(["new"] + label.split(":", 2)[1:])
            out.append({"label": label, "res": res, "exc": exc, "g": globals_digest(), "out": cap.n - before, "proj0": p0, "proj": p1,
                        "on": made[st[1]] if st[0] == "call" and st[1] < len(made) else []})
    finally:
        sys.stdout, sys.stderr = old
    return out


def fresh(step):
    """digest of one step in a fresh interpreter (for 'call' steps the object is built there first)"""
    code = ("import sys, json; sys.path.insert(0, %r); import system; "
            "print(json.dumps(system.run_steps(json.loads(sys.argv[1]))))" % os.path.dirname(os.path.abspath(__file__)))
    p = subprocess.Popen([sys.executable, "-B", "-c", code, json.dumps(step)], stdout=subprocess.PIPE, stderr=subprocess.PIPE, env=os.environ)
    o, e = p.communicate()
    if p.returncode != 0:
        raise RuntimeError(e.decode("utf-8", "replace")[-500:])
    return json.loads(o.decode("utf-8"))


# ---- forced schedules -------------------------------------------------------------------------
class Stepper(object):
    """Blocks each construction thread at the entry of every pipeline method until the schedule
    says it is that thread's turn (threading.settrace, external instrumentation only)."""

    def __init__(self, schedule, nthreads):
        self.schedule, self.pos, self.cv = list(schedule), 0, threading.Condition()
        self.finished = set()
        self.n = nthreads

    def gate(self, me):
        with self.cv:
            while True:
                # skip turns of threads that have already finished
                while self.pos < len(self.schedule) and self.schedule[self.pos] in self.finished:
                    self.pos += 1
                if self.pos >= len(self.schedule) or self.schedule[self.pos] == me:
                    self.pos += 1
                    self.cv.notify_all()
                    return
                if not self.cv.wait(5.0):
                    self.pos += 1          # never deadlock the harness: give up the turn order
                    self.cv.notify_all()

    def done(self, me):
        with self.cv:
            self.finished.add(me)
            self.cv.notify_all()


def forced(item):
    st = Stepper(item["schedule"], len(item["inputs"]))
    results = [None] * len(item["inputs"])
    excs = ["-"] * len(item["inputs"])
    steps_seen = [0] * len(item["inputs"])

    def worker(k, ver, s):
        def tracer(frame, event, arg):
            # gates: the entry of any function of the library called directly from a constructor (whatever the methods are called)
            if event == "call" and "cvss" in frame.f_code.co_filename and frame.f_back is not None and frame.f_back.f_code.co_name == "__init__" \
                    and "cvss" in frame.f_back.f_code.co_filename:
                steps_seen[k] += 1
                st.gate(k + 1)
            return None
        sys.settrace(tracer)
        try:
            try:
                obj = CLS[ver](s)
                results[k] = dig(observe(obj, ver))
            except Exception as e:  # noqa
                results[k] = "raised"
                excs[k] = type(e).__name__
        finally:
            sys.settrace(None)
            st.done(k + 1)
    g0 = globals_digest()
    ts = [threading.Thread(target=worker, args=(k, v, unesc(s))) for k, (v, s) in enumerate(item["inputs"])]
    for t in ts:
        t.start()
    for t in ts:
        t.join()
    g1 = globals_digest()
    return [{"label": "new:%s:%s" % (v, s), "res": results[k], "exc": excs[k], "g": g1, "out": 0, "proj0": "-", "proj": "-", "gated": steps_seen[k]}
            for k, (v, s) in enumerate(item["inputs"])], g0


def stress(item):
    import random
    sys.setswitchinterval(2e-5) if hasattr(sys, "setswitchinterval") else None
    inputs = [(v, unesc(s)) for v, s in item["inputs"]]
    res = []
    lock = threading.Lock()

    def worker(seed):
        rnd = random.Random(seed)
        mine = []
        for _ in range(item["rounds"]):
            k = rnd.randrange(len(inputs))
            ver, s = inputs[k]
            try:
                if ver == "text":                  # every kind of API call takes part, not only the constructors
                    r_ = parse_cvss_from_text(s)
                    mine.append((k, dig(sorted([type(r).__name__, r.vector, r.clean_vector()] for r in r_)), "-"))
                elif ver.startswith("rh"):
                    obj = CLS[ver[2:]].from_rh_vector(s)
                    mine.append((k, dig(observe(obj, ver[2:])), "-"))
                else:
                    obj = CLS[ver](s)
                    mine.append((k, dig(observe(obj, ver)), "-"))
            except Exception as e:  # noqa
                mine.append((k, "raised", type(e).__name__))
        with lock:
            res.extend(mine)
    g0 = globals_digest()
    ts = [threading.Thread(target=worker, args=(item.get("seed", 0) * 100 + n,)) for n in range(item["threads"])]
    for t in ts:
        t.start()
    for t in ts:
        t.join()
    g1 = globals_digest()
    distinct = sorted(set(res))
    def lab(k):
        v, s = item["inputs"][k]
        return "text::%s" % s if v == "text" else ("fromrh:%s:%s" % (v[2:], s) if v.startswith("rh") else "new:%s:%s" % (v, s))
    return [{"label": lab(k), "res": d, "exc": x, "g": g1, "out": 0, "proj0": "-", "proj": "-"}
            for k, d, x in distinct], g0, len(res)


class Aborted(BaseException):
    """what breaks a call off from outside (KeyboardInterrupt, a timeout exception); not an Exception, as those are not"""


def preempt(item):
    """Preemption-bounded exploration at line granularity, one preemption per execution: call A runs under a line tracer restricted to
    the library; at every line boundary k of A - its very first, cold, execution in this process included - the process forks, and in
    the child call B runs to completion at that point (what a thread switch there would do to state shared through modules and
    classes), after which A runs on to its end.  The parent continues A undisturbed to the next boundary.  Every B result and every
    A result must be what the calls give on their own.  (external instrumentation only: sys.settrace, os.fork)"""
    root = os.path.dirname(os.path.abspath(cvss.__file__))
    (va, sa), (vb, sb) = [(v, unesc(s)) for v, s in item["a"] + item["b"]]

    def call(v, s):
        try:
            if v == "text":
                r_ = parse_cvss_from_text(s)
                return [dig(sorted([type(r).__name__, r.vector, r.clean_vector()] for r in r_)), "-"]
            obj = CLS[v](s)
            return [dig(observe(obj, v)), "-"]
        except Exception as e:  # noqa
            return ["raised", type(e).__name__]
    shared = None
    if item.get("shared"):
        # one object in the hands of two threads: it is built here, undisturbed; call A and call B are both "use every accessor of
        # that object (and hash it, compare it with an equal twin, look it up in a set)"; B runs at every line boundary of A,
        # the object's very first accessor call included.  An immutable value can be read by any number of threads.
        shared, twin = CLS[va](sa), CLS[va](sa)

        def use(o_):
            try:
                ob = observe(o_, va)
                return [dig([ob, hash(o_) == hash(twin), o_ == twin, twin == o_, o_ in set([twin]), not (o_ != twin)]), "-"]
            except Exception as e:  # noqa
                return ["raised", type(e).__name__]
        call = lambda v, s: use(shared)  # noqa
    state = {"points": 0, "child": None}
    seen_b, seen_a = set(), set()

    def tracer(frame, event, arg):
        if state["child"] is not None or not frame.f_code.co_filename.startswith(root):
            return None
        if event == "line" and state["points"] < item.get("max_points", 3000):
            state["points"] += 1
            r, w = os.pipe()
            pid = os.fork()
            if pid == 0:                       # the child: B runs here and now, then A runs on (untraced) to its end
                os.close(r)
                sys.settrace(None)
                state["child"] = w
                if item.get("abort"):
                    # ... or A is broken off here by an exception that is not the library's (Ctrl-C, a timeout): B is called afterwards
                    raise Aborted()
                state["rb"] = call(vb, sb)
                return None
            os.close(w)
            data = b""
            while True:
                chunk = os.read(r, 65536)
                if not chunk:
                    break
                data += chunk
            os.close(r)
            os.waitpid(pid, 0)
            try:
                rb, ra_ = json.loads(data.decode("utf-8"))
                seen_b.add(tuple(rb))
                if ra_[0] != "aborted":
                    seen_a.add(tuple(ra_))
            except ValueError:
                seen_b.add(("raised", "child-died"))
        return tracer
    g0 = globals_digest()
    cap = Capture()
    old = sys.stdout, sys.stderr
    sys.stdout = sys.stderr = cap
    sys.settrace(tracer)
    try:
        try:
            ra = call(va, sa)
        except Aborted:
            sys.settrace(None)
            ra = ["aborted", "-"]
            state["rb"] = call(vb, sb)
    finally:
        sys.settrace(None)
        sys.stdout, sys.stderr = old
    if state["child"] is not None:            # in a child: report and leave without running anything of the parent's
        try:
            os.write(state["child"], json.dumps([state["rb"], ra]).encode("utf-8"))
        finally:
            os._exit(0)
    g1 = globals_digest()
    lab = lambda v, s: "text::%s" % esc(s) if v == "text" else "new:%s:%s" % (v, esc(s))  # noqa
    if shared is not None:
        # the reference: the same use of a freshly built object that nobody else touches
        lab = lambda v, s: "shared:%s:%s" % (v, esc(s))  # noqa
        ref = use(CLS[va](sa))
        steps = [{"label": lab(va, sa), "res": ra[0], "exc": ra[1], "g": g1, "out": cap.n, "proj0": "-", "proj": "-", "ref_local": ref}]
        steps += [{"label": lab(va, sa), "res": r, "exc": x, "g": g1, "out": 0, "proj0": "-", "proj": "-", "ref_local": ref} for r, x in sorted(seen_a | seen_b)]
        return steps, g0, state["points"]
    steps = [{"label": lab(va, sa), "res": ra[0], "exc": ra[1], "g": g1, "out": cap.n, "proj0": "-", "proj": "-"}]
    steps += [{"label": lab(va, sa), "res": r, "exc": x, "g": g1, "out": 0, "proj0": "-", "proj": "-"} for r, x in sorted(seen_a)]
    steps += [{"label": lab(vb, sb), "res": r, "exc": x, "g": g1, "out": 0, "proj0": "-", "proj": "-"} for r, x in sorted(seen_b)]
    return steps, g0, state["points"]


def poison(item):
    """Every input is first handed to the library by a caller working under a decimal context of a few digits (results not judged),
    then, under the ordinary context, once more: the second results are the ones recorded.  With prec = 0 the first pass is left
    out - that recording is the reference (a different process)."""
    inputs = [(v, unesc(s_)) for v, s_ in item["inputs"]]
    cap = Capture()
    old = sys.stdout, sys.stderr
    sys.stdout = sys.stderr = cap
    try:
        if item.get("prec"):
            with decimal.localcontext() as ctx_:
                ctx_.prec, ctx_.rounding = item["prec"], getattr(decimal, item.get("rounding", "ROUND_HALF_EVEN"))
                if item.get("trap"):
                    ctx_.traps[decimal.Inexact] = True
                for v, s_ in inputs:
                    try:
                        if v == "text":
                            parse_cvss_from_text(s_)
                        elif v.startswith("rh"):
                            observe(CLS[v[2:]].from_rh_vector(s_), v[2:], with_json=True)
                        else:
                            observe(CLS[v](s_), v, with_json=True)
                    except BaseException:  # noqa
                        pass
        steps = []
        g = globals_digest()
        for v, s_ in inputs:
            try:
                if v == "text":
                    r_ = parse_cvss_from_text(s_)
                    res, exc, lab = dig(sorted([type(r).__name__, r.vector, r.clean_vector()] for r in r_)), "-", "text::%s" % esc(s_)
                elif v.startswith("rh"):
                    res, exc, lab = dig(observe(CLS[v[2:]].from_rh_vector(s_), v[2:])), "-", "fromrh:%s:%s" % (v[2:], esc(s_))
                else:
                    res, exc, lab = dig(observe(CLS[v](s_), v)), "-", "new:%s:%s" % (v, esc(s_))
            except Exception as e:  # noqa
                res, exc = "raised", type(e).__name__
                lab = "text::%s" % esc(s_) if v == "text" else ("fromrh:%s:%s" % (v[2:], esc(s_)) if v.startswith("rh") else "new:%s:%s" % (v, esc(s_)))
            steps.append({"label": lab, "res": res, "exc": exc, "g": g, "out": 0, "proj0": "-", "proj": "-"})
    finally:
        sys.stdout, sys.stderr = old
    return steps


def main():
    job = json.load(io.open(sys.argv[1], encoding="utf-8"))
    out = []
    for it in hb_iter(job["items"]):
        kind = it["kind"]
        g0 = globals_digest()
        ev = {"kind": kind, "g0": g0}
        if kind == "accessors":
            steps = [["new", it["ver"], it["s"], "bare"]] + [["call", 0, c] for c in it["calls"]]
            ev["steps"] = run_steps(steps)
            # the pristine twin: each call on a fresh object of the same input, in this process
            for st, c in zip(ev["steps"][1:], it["calls"]):
                st["ref"] = run_steps([["new", it["ver"], it["s"], "bare"], ["call", 0, c]])[1]["res"]
                st["refexc"] = "-"
            ev["steps"][0]["ref"] = ev["steps"][0]["res"]
            ev["steps"][0]["refexc"] = ev["steps"][0]["exc"]
        elif kind in ("history", "config"):
            if kind == "config":
                ctx = decimal.getcontext()
                saved = (ctx.prec, ctx.rounding)
                ctx.prec, ctx.rounding = it["prec"], getattr(decimal, it["rounding"])
                ev["g0"] = globals_digest()
            if it.get("handling"):          # the whole history runs while the caller is handling an exception
                try:
                    raise RuntimeError("the caller's own exception")
                except RuntimeError:
                    ev["steps"] = run_steps(it["steps"])
            else:
                ev["steps"] = run_steps(it["steps"])
            if kind == "config":
                ev["ctx_after"] = [decimal.getcontext().prec, decimal.getcontext().rounding]
                decimal.getcontext().prec, decimal.getcontext().rounding = saved
        elif kind == "depth":
            # stack exhaustion is ambient too: at every distance from the recursion limit a call either gives its result or raises
            # RecursionError - it never returns something else silently
            import inspect
            ev["steps"] = []
            old_limit = sys.getrecursionlimit()
            base = len(inspect.stack())
            cap = Capture()
            for st in it["steps"]:
                # only the library call itself runs under the lowered limit; describing its result needs stack of its own
                if st[0] == "text":
                    arg = unesc(st[1])
                    call = lambda: parse_cvss_from_text(arg)  # noqa
                    describe = lambda res: dig(sorted([type(r).__name__, r.vector, r.clean_vector()] for r in res))  # noqa
                    label = "text:%s" % st[1]
                else:
                    ver_, arg = st[1], unesc(st[2])
                    call = (lambda: CLS[ver_].from_rh_vector(arg)) if st[0] == "fromrh" else (lambda: CLS[ver_](arg))  # noqa
                    describe = lambda obj: dig(observe(obj, ver_))  # noqa
                    label = "%s:%s:%s" % (st[0], st[1], st[2])
                try:
                    call()          # once with the whole stack: lazily built caches of the interpreter (compiled patterns) are warm afterwards
                except Exception:  # noqa
                    pass
                for k in it["margins"]:
                    saved_out = sys.stdout, sys.stderr
                    sys.stdout = sys.stderr = cap
                    raw, exc = None, "-"
                    try:
                        try:
                            sys.setrecursionlimit(base + 2 + k)
                            raw = call()
                        except Exception as e:  # noqa
                            exc = type(e).__name__
                        finally:
                            sys.setrecursionlimit(old_limit)
                    finally:
                        sys.stdout, sys.stderr = saved_out
                    res = "raised" if exc != "-" else describe(raw)
                    ev["steps"].append({"label": label + "@margin%d" % k, "res": res, "exc": exc, "g": globals_digest(), "out": 0, "proj0": "-", "proj": "-", "on": [], "margin": k})
        elif kind == "reference":
            ev["steps"] = []
            for st in it["steps"]:          # each entry is a list of steps run in one fresh interpreter
                ev["steps"].append(fresh(st)[-1])
        elif kind == "schedule":
            ev["steps"], ev["g0"] = forced(it)
        elif kind == "stress":
            ev["steps"], ev["g0"], ev["constructions"] = stress(it)
        elif kind == "preempt":
            ev["steps"], ev["g0"], ev["points"] = preempt(it)
        elif kind == "poison":
            ev["steps"] = poison(it)
        ev["item"] = it
        out.append(ev)
    data = json.dumps(out, separators=(",", ":"), ensure_ascii=True)
    with io.open(job["out"], "w", encoding="utf-8") as fh:
        fh.write(data if sys.version_info[0] > 2 else data.decode("ascii"))


if __name__ == "__main__":
    main()
