# -*- coding: utf-8 -*-
"""Driver: sessions of the real ask_interactively() fed through sys.stdin / observed through
sys.stdout (python 2.7 / 3.x common subset).

argv[1] = job file {"out": path, "items": [{"bver": "2"|"3.0"|"3.1"|"4.0", "all": bool,
                                           "no_colors": bool, "script": [answers...]}]}
One event per input() call (prompt = last line printed before the read, answer consumed), then
the outcome (Return value / EofError / Raise)."""
from __future__ import print_function, unicode_literals
import sys, json, io
from obs import esc, unesc, hb_iter

VERSION = {"2": 2, "3.0": 3.0, "3.1": 3.1, "4.0": 4.0}


class Out(object):
    """stdout stand-in; with an encoding it refuses what that encoding cannot represent, as a real stream does"""

    def __init__(self, encoding=None):
        self.buf = []
        self.encoding = encoding

    def write(self, s):
        if isinstance(s, bytes):
            s = s.decode("utf-8", "replace")
        if self.encoding:
            s.encode(self.encoding)          # raises UnicodeEncodeError like a stream opened with that encoding
        self.buf.append(s)
        return len(s)

    def flush(self):
        pass

    def text(self):
        return "".join(self.buf)


class In(object):
    def __init__(self, answers, out, events):
        self.answers, self.out, self.events, self.pos, self.mark = list(answers), out, events, 0, 0

    def readline(self, *a):
        txt = self.out.text()
        shown = txt[self.mark:]
        self.mark = len(txt)
        prompt = shown.split("\n")[-1]
        if self.pos < len(self.answers) and self.answers[self.pos] == "\x03":
            # the user presses Ctrl-C at this question: the read is broken off by KeyboardInterrupt (as end of input breaks it off by EOFError)
            self.pos += 1
            self.events.append({"ev": "Eof", "how": "interrupt", "prompt": esc(prompt), "shown": esc(shown)})
            raise KeyboardInterrupt()
        if self.pos < len(self.answers):
            ans = self.answers[self.pos]
            self.pos += 1
            self.events.append({"ev": "Read", "prompt": esc(prompt), "shown": esc(shown), "answer": esc(ans)})
            r = ans + "\n"
            return r if sys.version_info[0] > 2 else r.encode("utf-8")
        self.events.append({"ev": "Eof", "how": "eof", "prompt": esc(prompt), "shown": esc(shown)})
        return "" if sys.version_info[0] > 2 else b""

    def read(self, *a):
        return self.readline()

    def isatty(self):
        return False

    def fileno(self):
        raise io.UnsupportedOperation("fileno")


def session(it):
    from cvss.interactive import ask_interactively
    events = []
    out = Out(it.get("encoding"))
    inp = In([unesc(a) for a in it["script"]], out, events)
    old = sys.stdin, sys.stdout, sys.stderr
    err = Out()
    sys.stdin, sys.stdout, sys.stderr = inp, out, err
    try:
        try:
            ver = VERSION[it["bver"]]
            # the same number as int or float (the docstring documents "2 or 3.0/3.1 or 4")
            if it.get("num") == "int" and float(ver) == int(ver):
                ver = int(ver)
            elif it.get("num") == "float":
                ver = float(ver)
            if len(it["script"]) % 2:          # the documented signature, positionally and by keyword
                v = ask_interactively(ver, it["all"], it.get("no_colors", True))
            else:
                v = ask_interactively(no_colors=it.get("no_colors", True), version=ver, all_metrics=it["all"])
            events.append({"ev": "Return", "value": esc(v)})
        except EOFError:
            events.append({"ev": "EofError", "exc": "EOFError"})
        except KeyboardInterrupt:
            events.append({"ev": "EofError", "exc": "KeyboardInterrupt"})
        except BaseException as e:  # noqa
            events.append({"ev": "Raise", "exc": type(e).__name__})
    finally:
        sys.stdin, sys.stdout, sys.stderr = old
    return {"bver": it["bver"], "all": it["all"], "colours": not it.get("no_colors", True), "events": events, "consumed": inp.pos, "script_len": len(it["script"]),
            "stderr": esc(err.text())[:200], "stdout_len": len(out.text())}


def main():
    job = json.load(io.open(sys.argv[1], encoding="utf-8"))
    res = [session(it) for it in hb_iter(job["items"])]
    data = json.dumps(res, separators=(",", ":"), ensure_ascii=True)
    with io.open(job["out"], "w", encoding="utf-8") as fh:
        fh.write(data if sys.version_info[0] > 2 else data.decode("ascii"))


if __name__ == "__main__":
    main()
