# -*- coding: utf-8 -*-
"""Driver: string-level events from the real API (python 2.7 / 3.x common subset).

argv[1] = path of a JSON job {"out": path, "items": [item...]}; item ops:
  construct {ver, s}        CVSSn(s): full observation, or the exception
  fromrh    {ver, s}        CVSSn.from_rh_vector(s)
  text      {text}          parse_cvss_from_text(text)
  pool      {items:[{ver,s}]} equality / hash matrix of a pool of objects (+ foreign values)
All strings travel in the escaped ASCII form of obs.esc()."""
from __future__ import print_function, unicode_literals
import sys, json, io
import cvss
from cvss import CVSS2, CVSS3, CVSS4
from cvss.parser import parse_cvss_from_text
from obs import esc, unesc, observe, exc_obs

CLS = {"2": CVSS2, "3": CVSS3, "4": CVSS4}
VER = {CVSS2: "2", CVSS3: "3", CVSS4: "4"}


class Presented(type("")):
    """a str subclass whose *presentation* hooks differ from its text (like a member of `class Known(str, Enum)`): the library may
    use every str operation on its input, but what it reports must be about the text that was supplied"""

    def __str__(self):
        return "<presented>"

    def __repr__(self):
        return "<presented repr>"

    def __format__(self, spec):
        return "<presented format>"


def construct(ver, s, rh=False, with_json=True, reparse=True, order=None):
    try:
        obj = CLS[ver].from_rh_vector(s) if rh else CLS[ver](s)
    except Exception as e:  # noqa - any exception class is an observation
        return None, {"cls": "exc", "e": exc_obs(e)}
    o = observe(obj, ver, with_json, order)
    o["cls"] = "ok"
    o["minor"] = getattr(obj, "minor_version", -1) if ver == "3" else -1
    if reparse:
        # the library's own constructor applied to what it emitted
        for name, text in (("re_clean", obj.clean_vector()), ("re_rh", obj.rh_vector())):
            try:
                o2 = CLS[ver].from_rh_vector(text) if name == "re_rh" else CLS[ver](text)
                o[name] = {"cls": "ok", "scores": observe(o2, ver, False)["scores"], "clean": esc(o2.clean_vector()),
                           "eq": bool(o2 == obj and obj == o2), "hash_eq": hash(o2) == hash(obj)}
            except Exception as e:  # noqa
                o[name] = {"cls": "exc", "e": exc_obs(e)}
    if ver in ("2", "3") and reparse:
        # C15: base metrics + both sub-vectors must score the same (TLC re-derives this string)
        mand = {"2": ["AV", "AC", "Au", "C", "I", "A"], "3": ["AV", "AC", "PR", "UI", "S", "C", "I", "A"]}[ver]
        fields = dict(f.split(":") for f in (obj.clean_vector() if ver == "2" else obj.clean_vector(output_prefix=False)).split("/") if f.count(":") == 1)
        pre = "" if ver == "2" else "CVSS:3.%s/" % obj.minor_version
        try:
            asm = pre + "/".join(m + ":" + fields[m] for m in mand) + "/" + obj.temporal_vector() + "/" + obj.environmental_vector()
            try:
                o3 = CLS[ver](asm)
                o["asm"] = {"s": esc(asm), "cls": "ok", "scores": observe(o3, ver, False)["scores"]}
            except Exception as e:  # noqa
                o["asm"] = {"s": esc(asm), "cls": "exc", "scores": [], "e": exc_obs(e)}
        except Exception as e:  # noqa
            o["asm"] = {"s": "?", "cls": "exc", "scores": [], "e": exc_obs(e)}
    return obj, o


def main():
    job = json.load(io.open(sys.argv[1], encoding="utf-8"))
    out = []
    for n, it in enumerate(job["items"]):
        op = it["op"]
        ev = dict(it)
        if op in ("construct", "fromrh"):
            # two of three events observe the object in a seeded random accessor order
            order = None if n % 3 == 0 else (job.get("seed", 0) * 1000003 + n)
            arg = unesc(it["s"])
            if n % 5 == 4 and it.get("json", True):        # every fifth JSON-bearing event supplies the vector as a str subclass instance
                arg = Presented(arg)
            if n % 4 == 3:          # every fourth event is computed in a freshly started worker thread
                import threading
                box = []
                th = threading.Thread(target=lambda: box.append(construct(it["ver"], arg, rh=(op == "fromrh"), with_json=it.get("json", True), order=order)))
                th.start()
                th.join()
                _, ev["out"] = box[0]
            else:
                _, ev["out"] = construct(it["ver"], arg, rh=(op == "fromrh"), with_json=it.get("json", True), order=order)
            if op == "fromrh":
                raw = unesc(it["s"])
                if "/" in raw:
                    rest = raw.split("/", 1)[1]
                    ev["rest"] = esc(rest)
                    _, ev["rest_out"] = construct(it["ver"], rest, with_json=False, reparse=False)
                else:
                    ev["rest"] = "-"
                    ev["rest_out"] = {"cls": "none"}
        elif op == "text":
            try:
                res = parse_cvss_from_text(unesc(it["text"]))
                ev["out"] = {"cls": "ok", "res": [{"ver": VER.get(type(r), "?"), "vector": esc(r.vector), "clean": esc(r.clean_vector()),
                                                   "minor": getattr(r, "minor_version", -1) if isinstance(r, CVSS3) else -1} for r in res],
                             "type": type(res).__name__}
                n = len(res)
                ev["out"]["eq"] = [[bool(res[a] == res[b]) for b in range(n)] for a in range(n)]
            except Exception as e:  # noqa
                ev["out"] = {"cls": "exc", "e": exc_obs(e)}
        elif op == "pool":
            objs, obs_ = [], []
            for p in it["items"]:
                obj, o = construct(p["ver"], unesc(p["s"]), with_json=False, reparse=False)
                objs.append(obj)
                obs_.append(o)
            n = len(objs)
            foreign = [None, "", 0, (1,), object()] + [unesc(p["s"]) for p in it["items"][:3]]
            ev["out"] = {
                "objs": obs_,
                "eq": [[(bool(objs[a] == objs[b]) if objs[a] is not None and objs[b] is not None else False) for b in range(n)] for a in range(n)],
                "ne": [[(bool(objs[a] != objs[b]) if objs[a] is not None and objs[b] is not None else True) for b in range(n)] for a in range(n)],
                "hash_eq": [[(hash(objs[a]) == hash(objs[b]) if objs[a] is not None and objs[b] is not None else False) for b in range(n)] for a in range(n)],
                "in_set": [[(objs[b] in set([objs[a]]) if objs[a] is not None and objs[b] is not None else False) for b in range(n)] for a in range(n)],
                "foreign_eq": [any((o == f) or (f == o) for f in foreign) if o is not None else False for o in objs],
                "set_size": len(set(o for o in objs if o is not None)),
            }
        elif op == "walk":
            objs, obs_ = [], []
            for s_ in it["strings"]:
                obj, o = construct(it["ver"], unesc(s_), with_json=False, reparse=False)
                objs.append(obj)
                obs_.append(o)
            o0 = objs[0]
            ev["out"] = {"obs": obs_,
                         "eq0": [bool(o0 == o) if (o0 is not None and o is not None) else False for o in objs],
                         "eq0r": [bool(o == o0) if (o0 is not None and o is not None) else False for o in objs],
                         "hash0": [(hash(o0) == hash(o)) if (o0 is not None and o is not None) else False for o in objs]}
        else:
            raise ValueError(op)
        out.append(ev)
    with io.open(job["out"], "w", encoding="utf-8") as fh:
        fh.write(json.dumps(out, separators=(",", ":"), ensure_ascii=True) if sys.version_info[0] > 2
                 else json.dumps(out, separators=(",", ":"), ensure_ascii=True).decode("ascii"))


if __name__ == "__main__":
    main()
