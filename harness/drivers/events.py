# -*- coding: utf-8 -*-
"""Driver: string-level events from the real API (python 2.7 / 3.x common subset).

argv[1] = path of a JSON job {"out": path, "items": [item...]}; item ops:
  construct {ver, s}        CVSSn(s): full observation, or the exception
  fromrh    {ver, s}        CVSSn.from_rh_vector(s)
  text      {text}          parse_cvss_from_text(text)
  pool      {items:[{ver,s}]} equality / hash matrix of a pool of objects (+ foreign values)
All strings travel in the escaped ASCII form of obs.esc()."""
from __future__ import print_function, unicode_literals
import sys, json, io
import cvss
from cvss import CVSS2, CVSS3, CVSS4
from cvss.parser import parse_cvss_from_text
from obs import esc, unesc, observe, exc_obs, hb_iter

CLS = {"2": CVSS2, "3": CVSS3, "4": CVSS4}
VER = {CVSS2: "2", CVSS3: "3", CVSS4: "4"}


class Presented(type("")):
    """a str subclass whose *presentation* hooks differ from its text (like a member of `class Known(str, Enum)`): the library may
    use every str operation on its input, but what it reports must be about the text that was supplied"""

    def __str__(self):
        return "<presented>"

    def __repr__(self):
        return "<presented repr>"

    def __format__(self, spec):
        return "<presented format>"


SUB = {}


def clone_of(obj, how):
    """a copy of the object (copy / deepcopy / pickle round trip): a value must behave the same after being copied; where the object
    cannot be copied that way the original is observed (copying is not what the properties are about, behaving differently is)"""
    import copy, pickle
    try:
        if how == 0:
            return copy.copy(obj)
        if how == 1:
            return copy.deepcopy(obj)
        return pickle.loads(pickle.dumps(obj, protocol=(how - 2) if how - 2 <= pickle.HIGHEST_PROTOCOL else 2))
    except Exception:  # noqa
        return obj


def construct(ver, s, rh=False, with_json=True, reparse=True, order=None, sub=False, clone=None):
    K = CLS[ver]
    if sub:     # a trivial user subclass: "every object" includes instances of subclasses, and alternate constructors must honour them
        if ver not in SUB:
            SUB[ver] = type(str("User" + CLS[ver].__name__), (CLS[ver],), {})
        K = SUB[ver]
    try:
        obj = K.from_rh_vector(s) if rh else K(s)
    except Exception as e:  # noqa - any exception class is an observation
        return None, {"cls": "exc", "e": exc_obs(e)}
    if clone is not None and not sub:          # (a class created at run time cannot be pickled by reference: subclasses are observed directly)
        if clone < 5:
            obj = clone_of(obj, clone)          # the copy is observed
        else:
            clone_of(obj, clone - 5)            # a copy is made and dropped, the original is observed: copying is a read-only use
    try:
        o = observe(obj, ver, with_json, order)
    except Exception as e:  # noqa - an accessor of an accepted vector that raises is an observation (the harness reports it under the property at hand)
        return obj, {"cls": "accessor-raised", "e": exc_obs(e), "minor": getattr(obj, "minor_version", -1) if ver == "3" else -1}
    o["cls"] = "ok"
    o["minor"] = getattr(obj, "minor_version", -1) if ver == "3" else -1
    if reparse:
        # the library's own constructor applied to what it emitted
        for name, text in (("re_clean", obj.clean_vector()), ("re_rh", obj.rh_vector())):
            try:
                o2 = K.from_rh_vector(text) if name == "re_rh" else K(text)
                o[name] = {"cls": "ok", "scores": observe(o2, ver, False)["scores"], "clean": esc(o2.clean_vector()),
                           "eq": bool(o2 == obj and obj == o2), "hash_eq": hash(o2) == hash(obj)}
            except Exception as e:  # noqa
                o[name] = {"cls": "exc", "e": exc_obs(e)}
    if ver in ("2", "3") and reparse:
        # C15: base metrics + both sub-vectors must score the same (TLC re-derives this string)
        mand = {"2": ["AV", "AC", "Au", "C", "I", "A"], "3": ["AV", "AC", "PR", "UI", "S", "C", "I", "A"]}[ver]
        fields = dict(f.split(":") for f in (obj.clean_vector() if ver == "2" else obj.clean_vector(output_prefix=False)).split("/") if f.count(":") == 1)
        pre = "" if ver == "2" else "CVSS:3.%s/" % obj.minor_version
        try:
            asm = pre + "/".join(m + ":" + fields[m] for m in mand) + "/" + obj.temporal_vector() + "/" + obj.environmental_vector()
            try:
                o3 = K(asm)
                o["asm"] = {"s": esc(asm), "cls": "ok", "scores": observe(o3, ver, False)["scores"]}
            except Exception as e:  # noqa
                o["asm"] = {"s": esc(asm), "cls": "exc", "scores": [], "e": exc_obs(e)}
        except Exception as e:  # noqa
            o["asm"] = {"s": "?", "cls": "exc", "scores": [], "e": exc_obs(e)}
    return obj, o


def limbs(n):
    n = abs(int(n))
    out = []
    while n:
        out.append(n % 10000)
        n //= 10000
    return out


def internals(ver, s):
    """the intermediate quantities the library exposes (Internals.tla): exact decimals as scaled integers in limbs"""
    from decimal import Decimal as D, localcontext, ROUND_DOWN
    try:
        obj = CLS[ver](s)
    except Exception as e:  # noqa
        return {"cls": "exc", "e": exc_obs(e)}
    try:
        return _internals(obj, ver)
    except Exception as e:  # noqa - these quantities are not named by any property: a library without them has nothing to compare
        return {"cls": "not-available", "e": exc_obs(e)}


def _internals(obj, ver):
    from decimal import Decimal as D, localcontext, ROUND_DOWN
    import importlib
    names = importlib.import_module("cvss.constants" + ver).METRICS_ABBREVIATIONS
    o = {"cls": "ok", "desc": [[m, esc(obj.get_value_description(m))] for m in names]}
    with localcontext() as ctx:
        ctx.prec = 200

        def scaled(x, k, exact=True):
            v = D(x).scaleb(k)
            t = v.to_integral_value(rounding=ROUND_DOWN)
            if exact and t != v:
                return [9999, 9999, 9999, 9999, 9999, 9999, 9999, 9999, 9999, 9999]       # not a decimal with k places: never equal to the specification's value
            return limbs(t)
        if ver == "4":
            o["macro"] = esc(obj.macroVector())
            o["m"] = [esc(obj.m(b)) for b in ("AV", "PR", "UI", "AC", "AT", "VC", "VI", "VA", "SC", "SI", "SA", "CR", "IR", "AR", "E")]
        elif ver == "3":
            o["iscb6"] = int(D(obj.isc_base).scaleb(6)) if D(obj.isc_base).scaleb(6) == int(D(obj.isc_base).scaleb(6)) else -1
            o["miscb6"] = int(D(obj.modified_isc_base).scaleb(6)) if D(obj.modified_isc_base).scaleb(6) == int(D(obj.modified_isc_base).scaleb(6)) else -1
            o["esc10"] = scaled(obj.esc, 10)
            o["mesc10"] = scaled(obj.modified_esc, 10)
            o["isc12"] = {"n": D(obj.isc) < 0, "m": scaled(obj.isc, 12, exact=False)}
            o["misc12"] = {"n": D(obj.modified_isc) < 0, "m": scaled(obj.modified_isc, 12, exact=False)}
        else:
            o["imp17"] = scaled(obj.impact_equation(), 17)
            o["adj17"] = scaled(obj.adjusted_impact_equation(), 17)
    return o


def main():
    job = json.load(io.open(sys.argv[1], encoding="utf-8"))
    out = []
    if job.get("warm"):        # this recording runs after a history that exercised every entry point and API of the library
        from obs import warm_up
        warm_up()
    for n, it in enumerate(hb_iter(job["items"])):
        op = it["op"]
        ev = dict(it)
        if op in ("construct", "fromrh"):
            # two of three events observe the object in a seeded random accessor order
            order = None if n % 3 == 0 else (job.get("seed", 0) * 1000003 + n)
            arg = unesc(it["s"])
            if n % 5 == 4 and it.get("json", True):        # every fifth JSON-bearing event supplies the vector as a str subclass instance
                arg = Presented(arg)
            if n % 4 == 3:          # every fourth event is computed in a freshly started worker thread
                import threading
                box = []
                th = threading.Thread(target=lambda: box.append(construct(it["ver"], arg, rh=(op == "fromrh"), with_json=it.get("json", True), order=order, sub=(n % 7 == 6), clone=((n // 11) % 10 if n % 11 == 10 else None))))
                th.start()
                th.join()
                _, ev["out"] = box[0]
            elif n % 9 == 8:          # every ninth event runs while the caller is handling an exception (and one more propagates through a finally)
                try:
                    try:
                        raise RuntimeError("the caller's own exception")
                    except RuntimeError:
                        try:
                            raise KeyError("a second one on its way out")
                        finally:
                            _, ev["out"] = construct(it["ver"], arg, rh=(op == "fromrh"), with_json=it.get("json", True), order=order)
                except KeyError:
                    pass
            else:
                _, ev["out"] = construct(it["ver"], arg, rh=(op == "fromrh"), with_json=it.get("json", True), order=order, sub=(n % 7 == 6), clone=((n // 11) % 10 if n % 11 == 10 else None))
            if op == "fromrh":
                raw = unesc(it["s"])
                if "/" in raw:
                    rest = raw.split("/", 1)[1]
                    ev["rest"] = esc(rest)
                    _, ev["rest_out"] = construct(it["ver"], rest, with_json=False, reparse=False)
                else:
                    ev["rest"] = "-"
                    ev["rest_out"] = {"cls": "none"}
        elif op == "text":
            try:
                if n % 5 == 4:          # every fifth text is parsed while the caller is handling an exception
                    try:
                        raise RuntimeError("the caller's own exception")
                    except RuntimeError:
                        res = parse_cvss_from_text(unesc(it["text"]))
                else:
                    res = parse_cvss_from_text(unesc(it["text"]))
                ev["out"] = {"cls": "ok", "res": [{"ver": VER.get(type(r), "?"), "vector": esc(r.vector), "clean": esc(r.clean_vector()),
                                                   "minor": getattr(r, "minor_version", -1) if isinstance(r, CVSS3) else -1} for r in res],
                             "type": type(res).__name__}
                n = len(res)
                ev["out"]["eq"] = [[bool(res[a] == res[b]) for b in range(n)] for a in range(n)]
            except Exception as e:  # noqa
                ev["out"] = {"cls": "exc", "e": exc_obs(e)}
        elif op == "pool":
            objs, obs_ = [], []
            for p in it["items"]:
                obj, o = construct(p["ver"], unesc(p["s"]), with_json=True, reparse=False)
                objs.append(obj)
                obs_.append(o)
            n = len(objs)
            foreign = [None, "", 0, (1,), object()] + [unesc(p["s"]) for p in it["items"][:3]]
            raised = []

            def safe(f, default, what):          # a comparison that raises is an observation (recorded), not a crash of the recorder
                try:
                    return f()
                except Exception as e:  # noqa
                    raised.append(what + ":" + type(e).__name__)
                    return default
            both = lambda a, b: objs[a] is not None and objs[b] is not None  # noqa
            ev["out"] = {
                "objs": obs_,
                "eq": [[(safe(lambda: bool(objs[a] == objs[b]), False, "eq") if both(a, b) else False) for b in range(n)] for a in range(n)],
                "ne": [[(safe(lambda: bool(objs[a] != objs[b]), True, "ne") if both(a, b) else True) for b in range(n)] for a in range(n)],
                "hash_eq": [[(safe(lambda: hash(objs[a]) == hash(objs[b]), False, "hash") if both(a, b) else False) for b in range(n)] for a in range(n)],
                "in_set": [[(safe(lambda: objs[b] in set([objs[a]]), False, "set") if both(a, b) else False) for b in range(n)] for a in range(n)],
                "foreign_eq": [safe(lambda: any((o == f) or (f == o) for f in foreign), False, "foreign") if o is not None else False for o in objs],
                "set_size": safe(lambda: len(set(o for o in objs if o is not None)), -1, "set"),
                "raised": sorted(set(raised)),
            }
            # comparing is a read-only use of both operands: every object observes the same after the whole matrix as before it
            after = []
            for p, obj, o in zip(it["items"], objs, obs_):
                if obj is None or o.get("cls") != "ok":
                    after.append(True)
                    continue
                try:
                    o2 = observe(obj, p["ver"], True)
                    after.append(all(o2.get(k_) == o.get(k_) for k_ in o2))
                except Exception:  # noqa
                    after.append(False)
            ev["out"]["unchanged_after"] = after
        elif op == "internals":
            ev["out"] = internals(it["ver"], unesc(it["s"]))
        elif op == "walk":
            objs, obs_ = [], []
            for s_ in it["strings"]:
                obj, o = construct(it["ver"], unesc(s_), with_json=False, reparse=False)
                objs.append(obj)
                obs_.append(o)
            o0 = objs[0]
            ev["out"] = {"obs": obs_,
                         "eq0": [bool(o0 == o) if (o0 is not None and o is not None) else False for o in objs],
                         "eq0r": [bool(o == o0) if (o0 is not None and o is not None) else False for o in objs],
                         "ne0": [bool(o0 != o) if (o0 is not None and o is not None) else True for o in objs],
                         "ne0r": [bool(o != o0) if (o0 is not None and o is not None) else True for o in objs],
                         "in0": [bool(o in set([o0])) and bool(o in [o0]) and bool({o0: 1}.get(o) == 1) if (o0 is not None and o is not None) else False for o in objs],
                         "hash0": [(hash(o0) == hash(o)) if (o0 is not None and o is not None) else False for o in objs]}
        else:
            raise ValueError(op)
        out.append(ev)
    with io.open(job["out"], "w", encoding="utf-8") as fh:
        fh.write(json.dumps(out, separators=(",", ":"), ensure_ascii=True) if sys.version_info[0] > 2
                 else json.dumps(out, separators=(",", ":"), ensure_ascii=True).decode("ascii"))


if __name__ == "__main__":
    main()
