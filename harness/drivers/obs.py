# -*- coding: utf-8 -*-
"""Observation helpers shared by the drivers (python 2.7 and 3.x common subset, stdlib only).

Everything a user can observe about a constructed object, written in a JSON form TLC can read:
no floats (scores as tenths plus their repr), no nulls, ASCII only (escape {code point})."""
from __future__ import print_function, unicode_literals
import json, re, sys

PY2 = sys.version_info[0] == 2
if PY2:
    text_type = unicode  # noqa
    unichr_ = unichr  # noqa
else:
    text_type = str
    unichr_ = chr


def esc(s):
    if not isinstance(s, text_type):
        s = s.decode("utf-8", "replace") if isinstance(s, bytes) else text_type(s)
    out = []
    for ch in s:
        o = ord(ch)
        if 32 <= o < 127 and ch not in '{}"\\':
            out.append(ch)
        else:
            out.append("{%d}" % o)
    return "".join(out)


def unesc(s):
    return re.sub(r"\{(\d+)\}", lambda m: unichr_(int(m.group(1))), s)


def tenth(x):
    if x is None:
        return -1
    try:
        t = int(round(x * 10))
    except Exception:
        return -2
    return t


def jsonval(v):
    """[type, text] of a JSON value after a round trip."""
    if isinstance(v, bool):
        return ["bool", "true" if v else "false"]
    if isinstance(v, float):
        return ["num", repr(v)]
    if isinstance(v, int) or (PY2 and isinstance(v, long)):  # noqa
        return ["int", repr(v)]
    if v is None:
        return ["null", "null"]
    if isinstance(v, text_type) or isinstance(v, bytes):
        return ["str", esc(v)]
    return ["other", esc(json.dumps(v, sort_keys=True))]


def json_obs(obj):
    out = {}
    for sort in (False, True):
        for minimal in (False, True):
            d = obj.as_json(sort=sort, minimal=minimal)
            txt = json.dumps(d)
            try:
                from collections import OrderedDict
                back = json.loads(txt, object_pairs_hook=OrderedDict)
            except Exception:
                back = json.loads(txt)
            out[("s" if sort else "u") + ("m" if minimal else "f")] = [[esc(k)] + jsonval(v) for k, v in back.items()]
    return out


def observe(obj, ver, with_json=True, order=None):
    """Everything observable about an object.  The accessors are called in a seeded random order (order = seed) when one is
    given: results must not depend on it (C18), and an order-dependent defect then shows in whichever check looks at the
    affected output."""
    o = {"vector": esc(obj.vector), "clean_np": "-", "tv": "-", "ev": "-"}

    def scores():
        sc = obj.scores()
        o["scores"] = [tenth(x) for x in sc]
        o["reprs"] = [repr(x) for x in sc]
    calls = [scores,
             lambda: o.__setitem__("sev", [esc(x) for x in obj.severities()]),
             lambda: o.__setitem__("clean", esc(obj.clean_vector())),
             lambda: o.__setitem__("rh", esc(obj.rh_vector()))]
    if ver != "2":
        calls.append(lambda: o.__setitem__("clean_np", esc(obj.clean_vector(output_prefix=False))))
    if ver != "4":
        calls.append(lambda: o.__setitem__("tv", esc(obj.temporal_vector())))
        calls.append(lambda: o.__setitem__("ev", esc(obj.environmental_vector())))
    if with_json:
        calls.append(lambda: o.__setitem__("json", json_obs(obj)))
    if order is not None:
        import random
        random.Random(order).shuffle(calls)
    for c in calls:
        c()
    return o


def exc_obs(e):
    import cvss
    return {"exc": type(e).__name__, "is_cvss_error": isinstance(e, cvss.CVSSError),
            "mro": [c.__name__ for c in type(e).__mro__], "msg": esc(text_type(e))[:300]}
