# -*- coding: utf-8 -*-
"""Observation helpers shared by the drivers (python 2.7 and 3.x common subset, stdlib only).

Everything a user can observe about a constructed object, written in a JSON form TLC can read:
no floats (scores as tenths plus their repr), no nulls, ASCII only (escape {code point})."""
from __future__ import print_function, unicode_literals
import json, re, sys

PY2 = sys.version_info[0] == 2
if PY2:
    text_type = unicode  # noqa
    unichr_ = unichr  # noqa
else:
    text_type = str
    unichr_ = chr


_HB = {"fd": None, "n": 0}


def hb(item):
    """Heartbeat: tells the harness which input the driver is about to hand to the library (file named by VERIF_HB).  The
    harness reads it to name the input of a call that does not return (Returns.tla: every call returns); nothing else uses it."""
    import os
    if _HB["fd"] is None:
        p = os.environ.get("VERIF_HB")
        _HB["fd"] = os.open(p, os.O_WRONLY | os.O_CREAT, 0o644) if p else -1
    if _HB["fd"] < 0:
        return
    _HB["n"] += 1
    try:
        data = json.dumps({"n": _HB["n"], "item": item}, ensure_ascii=True, default=repr)[:3000]
    except Exception:  # noqa
        data = json.dumps({"n": _HB["n"], "item": repr(item)[:2000]})
    if not isinstance(data, bytes):
        data = data.encode("ascii", "replace")
    try:
        os.lseek(_HB["fd"], 0, 0)
        os.write(_HB["fd"], data + b"\n" + b" " * max(0, 3100 - len(data)))
    except OSError:
        pass


def hb_iter(items):
    for it in items:
        hb(it)
        yield it


def esc(s):
    if not isinstance(s, text_type):
        s = s.decode("utf-8", "replace") if isinstance(s, bytes) else text_type(s)
    out = []
    for ch in s:
        o = ord(ch)
        if 32 <= o < 127 and ch not in '{}"\\':
            out.append(ch)
        else:
            out.append("{%d}" % o)
    return "".join(out)


def unesc(s):
    return re.sub(r"\{(\d+)\}", lambda m: unichr_(int(m.group(1))), s)


def tenth(x):
    if x is None:
        return -1
    try:
        t = int(round(x * 10))
    except Exception:
        return -2
    return t


def jsonval(v):
    """[type, text] of a JSON value after a round trip."""
    if isinstance(v, bool):
        return ["bool", "true" if v else "false"]
    if isinstance(v, float):
        return ["num", repr(v)]
    if isinstance(v, int) or (PY2 and isinstance(v, long)):  # noqa
        return ["int", repr(v)]
    if v is None:
        return ["null", "null"]
    if isinstance(v, text_type) or isinstance(v, bytes):
        return ["str", esc(v)]
    return ["other", esc(json.dumps(v, sort_keys=True))]


_STYLE = [0]


def json_obs(obj):
    """the four documents; the two options are passed in rotating calling conventions (keywords in either order, positionally,
    mixed, as 0/1): what the caller means by sort / minimal is fixed by the documented signature as_json(sort=False, minimal=False)"""
    out = {}
    for sort in (False, True):
        for minimal in (False, True):
            _STYLE[0] += 1
            st = _STYLE[0] % 6
            if st == 0:
                d = obj.as_json(sort=sort, minimal=minimal)
            elif st == 1:
                d = obj.as_json(sort, minimal)
            elif st == 2:
                d = obj.as_json(sort, minimal=minimal)
            elif st == 3:
                d = obj.as_json(minimal=minimal, sort=sort)
            elif st == 4:
                d = obj.as_json(**{"sort": sort, "minimal": minimal}) if (sort or minimal) else obj.as_json()
            else:          # flags by truthiness, as Python callers commonly pass them (1 / 0, a non-empty / empty string, None)
                tv = {True: [1, "yes", [0]], False: [0, "", None]}
                d = obj.as_json(tv[sort][_STYLE[0] % 3], minimal=tv[minimal][(_STYLE[0] // 3) % 3])
            txt = json.dumps(d)
            try:
                from collections import OrderedDict
                back = json.loads(txt, object_pairs_hook=OrderedDict)
            except Exception:
                back = json.loads(txt)
            out[("s" if sort else "u") + ("m" if minimal else "f")] = [[esc(k)] + jsonval(v) for k, v in back.items()]
    return out


def observe(obj, ver, with_json=True, order=None):
    """Everything observable about an object.  The accessors are called in a seeded random order (order = seed) when one is
    given: results must not depend on it (C18), and an order-dependent defect then shows in whichever check looks at the
    affected output."""
    o = {"vector": esc(obj.vector), "clean_np": "-", "tv": "-", "ev": "-"}

    def scores():
        sc = obj.scores()
        o["scores"] = [tenth(x) for x in sc]
        o["reprs"] = [repr(x) for x in sc]
    calls = [scores,
             lambda: o.__setitem__("sev", [esc(x) for x in obj.severities()]),
             lambda: o.__setitem__("clean", esc(obj.clean_vector())),
             lambda: o.__setitem__("rh", esc(obj.rh_vector()))]
    if ver != "2":
        _STYLE[0] += 1
        falsy = [False, False, 0, None, ""][_STYLE[0] % 5]
        if _STYLE[0] % 2:
            calls.append(lambda: o.__setitem__("clean_np", esc(obj.clean_vector(output_prefix=falsy))))
        else:
            calls.append(lambda: o.__setitem__("clean_np", esc(obj.clean_vector(falsy))))
        truthy = [True, 1, "yes"][_STYLE[0] % 3]
        calls.append(lambda: o.__setitem__("clean_p", esc(obj.clean_vector(output_prefix=truthy))))
    if ver != "4":
        calls.append(lambda: o.__setitem__("tv", esc(obj.temporal_vector())))
        calls.append(lambda: o.__setitem__("ev", esc(obj.environmental_vector())))
    if with_json:
        calls.append(lambda: o.__setitem__("json", json_obs(obj)))
    if order is not None:
        import random
        random.Random(order).shuffle(calls)
    for c in calls:
        c()
    if o.pop("clean_p", o.get("clean")) != o.get("clean"):          # an explicit truthy flag means what the default means
        o["clean"] = "<clean_vector(output_prefix=truthy) differs from clean_vector()>"
    return o


def exc_obs(e):
    import cvss
    return {"exc": type(e).__name__, "is_cvss_error": isinstance(e, cvss.CVSSError),
            "mro": [c.__name__ for c in type(e).__mro__], "msg": esc(text_type(e))[:300]}


def warm_up():
    """A history before the recorded events: every entry point and API of the library is exercised once (interactive builder for
    every version and mode with a scripted terminal, the calculator's main(), text extraction, failing and successful constructions,
    every accessor).  What is recorded afterwards must not depend on it; failures in here are not this recording's business."""
    import io
    class _In(object):
        pool = ["", "N", "L", "H", "A", "P", "M", "S", "C", "U", "R", "X", "ND", "POC", "OF", "TF", "W", "UC", "UR", "F", "T", "O",
                "LM", "MH", "Y", "D", "I", "Clear", "Green", "Amber", "Red", "n", "a"]

        def __init__(self):
            self.k = 0

        def readline(self, *a):
            self.k += 1
            if self.k > 6000:
                return "" if not PY2 else b""
            r = self.pool[(self.k * 7) % len(self.pool)] + "\n"
            return r if not PY2 else r.encode("utf-8")

        def isatty(self):
            return False
    saved = sys.stdin, sys.stdout, sys.stderr, sys.argv
    sink = io.StringIO() if not PY2 else io.BytesIO()
    try:
        sys.stdout = sys.stderr = sink
        try:
            from cvss.interactive import ask_interactively
            from cvss import cvss_calculator, CVSS2, CVSS3, CVSS4
            from cvss.parser import parse_cvss_from_text
            for ver in (2, 3.0, 3.1, 4.0, 3, 4):
                for allm in (False, True):
                    for nc in (True, False):
                        sys.stdin = _In()
                        try:
                            ask_interactively(ver, allm, nc)
                        except Exception:  # noqa
                            pass
            vs = {CVSS2: "AV:N/AC:L/Au:N/C:P/I:P/A:C/E:POC/RL:OF/RC:UC/CDP:LM/TD:M/CR:H/IR:L/AR:ND",
                  CVSS3: "CVSS:3.0/AV:L/AC:H/PR:L/UI:R/S:C/C:L/I:H/A:N/E:P/RL:T/RC:R/CR:H/IR:L/AR:X/MAV:A/MAC:L/MPR:H/MUI:N/MS:U/MC:N/MI:L/MA:H",
                  CVSS4: "CVSS:4.0/AV:A/AC:H/AT:P/PR:L/UI:P/VC:L/VI:H/VA:N/SC:L/SI:H/SA:N/E:P/CR:H/IR:L/AR:M/MAV:L/MAC:L/MAT:N/MPR:H/MUI:A/MVC:N/MVI:L/MVA:H/MSC:N/MSI:S/MSA:L/S:P/AU:Y/R:I/V:C/RE:M/U:Amber"}
            for argv in (["-v", vs[CVSS3]], ["-v", vs[CVSS2], "-j"], ["-v", vs[CVSS4], "-j"], ["-2"], ["-3", "-a"], ["-4", "-a", "-n"], ["-v", "junk"], []):
                sys.stdin = _In()
                sys.argv = ["cvss_calculator"] + argv
                try:
                    cvss_calculator.main()
                except BaseException:  # noqa - SystemExit included
                    pass
            parse_cvss_from_text("a " + vs[CVSS2] + " b (" + vs[CVSS3] + ") c " + vs[CVSS4] + ". " + vs[CVSS3].replace("3.0", "3.1") + " CVSS:3.1/AV:N")
            for cls, v in vs.items():
                for text in (v, v + "/", v.replace(":", "::"), "", "CVSS:3.1/AV:N", v.split("/E:")[0], "7.5/" + v, "x/" + v, v + "/ZZ:Q"):
                    for k in (cls, cls.from_rh_vector):
                        try:
                            o = k(text)
                            o.scores(), o.severities(), o.clean_vector(), o.rh_vector(), hash(o), o == o
                            for s_ in (False, True):
                                for m_ in (False, True):
                                    o.as_json(sort=s_, minimal=m_)
                            if cls is not CVSS4:
                                o.temporal_vector(), o.environmental_vector()
                        except Exception:  # noqa
                            pass
        except Exception:  # noqa
            pass
    finally:
        sys.stdin, sys.stdout, sys.stderr, sys.argv = saved
