# -*- coding: utf-8 -*-
"""Driver: record score tables from the real constructors (runs under the repository's python).

argv[1] = path of a JSON job file: {"out": path, "tables": [header...], "rows": [[t, [outer idx...]], ...],
                     "nsamples": k, "seed": n, "c09": bool}
Writes one JSON object {"rows": [...]} with, per row, the observed scores of every inner
combination (tenths; -1 for None) and a few sample strings. Nothing here is trusted by the
verdict: TLC re-parses the sample strings and decodes the indices itself.
"""
from __future__ import print_function
import sys, json, random
from cvss import CVSS2, CVSS3, CVSS4

ORDER = {
    "2": ["AV", "AC", "Au", "C", "I", "A", "E", "RL", "RC", "CDP", "TD", "CR", "IR", "AR"],
    "3": ["AV", "AC", "PR", "UI", "S", "C", "I", "A", "E", "RL", "RC", "CR", "IR", "AR",
          "MAV", "MAC", "MPR", "MUI", "MS", "MC", "MI", "MA"],
    "4": ["AV", "AC", "AT", "PR", "UI", "VC", "VI", "VA", "SC", "SI", "SA", "S", "AU", "R", "V",
          "RE", "U", "MAV", "MAC", "MAT", "MPR", "MUI", "MVC", "MVI", "MVA", "MSC", "MSI", "MSA",
          "CR", "IR", "AR", "E"],
}
CLS = {"2": CVSS2, "3": CVSS3, "4": CVSS4}


def prefix(h):
    if h["ver"] == "2":
        return ""
    if h["ver"] == "3":
        return "CVSS:3.%d/" % h["minor"]
    return "CVSS:4.0/"


def tenth(x):
    if x is None:
        return -1
    return int(round(x * 10))


def main():
    job = json.load(open(sys.argv[1]))
    if job.get("warm"):        # this recording runs after a history that exercised every entry point and API of the library
        from obs import warm_up
        warm_up()
    rnd = random.Random(job.get("seed", 0))
    tables = job["tables"]
    out_rows = []
    import threading

    def in_thread(fn, *a):
        box = []
        th = threading.Thread(target=lambda: box.append(fn(*a)))
        th.start()
        th.join()
        return box[0]
    from obs import hb_iter
    for n_, (t, o) in enumerate(hb_iter(job["rows"])):
        # every other row is computed in a freshly started worker thread: results must not depend on the thread
        row = in_thread(one_row, job, tables, rnd, t, o) if n_ % 2 else one_row(job, tables, rnd, t, o)
        out_rows.append(row)
    with open(job["out"], "w") as fh:
        json.dump({"rows": out_rows}, fh, separators=(",", ":"))


def one_row(job, tables, rnd, t, o):
    if True:
        h = tables[t - 1]
        cls = CLS[h["ver"]]
        order = ORDER[h["ver"]]
        pre = prefix(h)
        og = dict(h["fixed"])
        for d, dim in enumerate(h["outer"]):
            og.update(dim["opts"][o[d] - 1])
        inner = h["inner"]
        radix = [len(d["opts"]) for d in inner]
        n = 1
        for r in radix:
            n *= r
        obs = []
        objs = [] if job.get("eqsets") else None
        rep = set()
        want = set(rnd.sample(range(n), min(job.get("nsamples", 2), n)))
        samples = []
        idx = [0] * len(inner)
        for j in range(n):
            g = dict(og)
            for d, dim in enumerate(inner):
                g.update(dim["opts"][idx[d]])
            s = pre + "/".join(m + ":" + g[m] for m in order if m in g)
            try:
                c = cls(s)
                sc = c.scores()
            except Exception:  # noqa - a valid table vector that is rejected or crashes is recorded as the impossible score -3
                obs.extend([-3] * h["slots"])
                d_ = len(idx) - 1
                while d_ >= 0:
                    idx[d_] += 1
                    if idx[d_] < radix[d_]:
                        break
                    idx[d_] = 0
                    d_ -= 1
                continue
            for x in sc:
                obs.append(tenth(x))
            if objs is not None:
                objs.append(c)
            if job.get("c09"):
                try:
                    sev = c.severities()
                    js = c.as_json()
                    jm = c.as_json(sort=True, minimal=True)
                except Exception as e_:  # noqa - an accessor that raises for an accepted vector is recorded as an impossible rating
                    sev = ["<raised %s>" % type(e_).__name__] * len(sc)
                    js = jm = {}
                jsev = [js.get("baseSeverity"), js.get("temporalSeverity"), js.get("environmentalSeverity")]
                jmsev = [jm.get("baseSeverity"), jm.get("temporalSeverity"), jm.get("environmentalSeverity")]
                for k, x in enumerate(sc):
                    extra = getattr(c, "severity", None) if k == 0 else None
                    for jv in set([jsev[k], jmsev[k]]):
                        rep.add((k + 1, repr(x), type(x).__name__, sev[k], jv if jv is not None else "-",
                                 extra if extra is not None else "-"))
            if j in want:
                samples.append({"j": j, "s": s})
            # increment mixed radix, last fastest
            d = len(idx) - 1
            while d >= 0:
                idx[d] += 1
                if idx[d] < radix[d]:
                    break
                idx[d] = 0
                d -= 1
        row = {"t": t, "o": o, "obs": obs, "samples": samples}
        if objs is not None:
            # how many distinct objects the row holds according to ==/hash (a Python set), and according to the cleaned vectors
            row["set_size"] = len(set(objs))
            row["distinct_clean"] = len(set(x.clean_vector() for x in objs))
            d_ = {}
            for x in objs:
                d_[x] = d_.get(x, 0) + 1
            row["dict_size"] = len(d_)
        if job.get("c09"):
            row["rep"] = sorted(list(x) for x in rep)
        return row


if __name__ == "__main__":
    main()
