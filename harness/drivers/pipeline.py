# -*- coding: utf-8 -*-
"""Driver: step-level observation of the constructor pipeline (external instrumentation with
sys.settrace; nothing is added to the repository).  One event per pipeline method that returns or
raises, with the projection of the object's state after the step.

argv[1] = job file {"out": path, "items": [{"ver", "s"}]}"""
from __future__ import print_function, unicode_literals
import sys, json, io
from cvss import CVSS2, CVSS3, CVSS4
from obs import esc, unesc, tenth, hb_iter

CLS = {"2": CVSS2, "3": CVSS3, "4": CVSS4}
STEPS = ("parse_vector", "check_mandatory", "handle_scope", "add_missing_optional", "compute_base_score",
         "compute_temporal_score", "compute_environmental_score", "compute_severity")


def score(x):
    if x is None:
        return -1
    try:
        return tenth(float(x))
    except Exception:  # noqa
        return -2


def project(obj):
    d = vars(obj)
    m = d.get("metrics") or {}
    om = d.get("original_metrics")
    return {"metrics": sorted([esc(k), esc(v)] for k, v in m.items()),
            "original": sorted([esc(k), esc(v)] for k, v in om.items()) if isinstance(om, dict) else [["-", "-"]],
            "has_original": isinstance(om, dict),
            "scores": [score(d.get("base_score")), score(d.get("temporal_score")), score(d.get("environmental_score"))],
            "minor": d.get("minor_version") if d.get("minor_version") is not None else -1}


def trace_one(ver, s):
    events = []
    state = {"depth": 0}

    def tracer(frame, event, arg):
        co = frame.f_code
        if event == "call" and co.co_name in STEPS and "cvss" in co.co_filename:
            name = co.co_name
            top = state["depth"] == 0          # steps called from __init__, not from inside another step
            state["depth"] += 1

            def local(fr, ev, a):
                if ev == "return":
                    state["depth"] -= 1
                    if top:
                        e = {"step": name, "raised": fr.f_locals.get("__verif_exc__", False) or (a is None and state.get("exc") is not None)}
                        e.update(project(fr.f_locals["self"]))
                        if state.get("exc") is not None:
                            e["raised"] = True
                        events.append(e)
                elif ev == "exception":
                    state["exc"] = a[0].__name__
                return local
            return local
        return None
    out = {"cls": "ok", "exc": "-"}
    sys.settrace(tracer)
    try:
        try:
            CLS[ver](s)
        except Exception as e:  # noqa
            out = {"cls": "exc", "exc": type(e).__name__}
    finally:
        sys.settrace(None)
    return events, out


def main():
    job = json.load(io.open(sys.argv[1], encoding="utf-8"))
    res = []
    for it in hb_iter(job["items"]):
        ev, out = trace_one(it["ver"], unesc(it["s"]))
        res.append({"ver": it["ver"], "s": it["s"], "steps": ev, "out": out})
    data = json.dumps(res, separators=(",", ":"), ensure_ascii=True)
    with io.open(job["out"], "w", encoding="utf-8") as fh:
        fh.write(data if sys.version_info[0] > 2 else data.decode("ascii"))


if __name__ == "__main__":
    main()
