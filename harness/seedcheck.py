#!/usr/bin/env python3
"""Confirm a seeded change (independently written breaking change) and run checks against it.

usage: seedcheck.py <dir with patch.diff demo.py meta.json and the patched tree> <prop> [more props...]
Confirms: pinned tests still 34 passed with the change; demo fails with it and passes on /repo;
then runs ./check <prop> --tier quick with CVSS_REPO=<dir> and reports whether a VIOLATION was raised."""
import sys, os, subprocess, json, re, shutil

d = os.path.abspath(sys.argv[1])
props = sys.argv[2:]
env = dict(os.environ, PYTHONPATH=d)
t = subprocess.run(["/venv/bin/python", "-m", "pytest", "-q", "-p", "no:cacheprovider", "--timeout=900", "--continue-on-collection-errors"],
                   cwd=d, env=env, stdout=subprocess.PIPE, stderr=subprocess.STDOUT).stdout.decode()
tests = t.strip().splitlines()[-1]
demo_with = subprocess.run(["/venv/bin/python", "demo.py"], cwd=d, env=env, stdout=subprocess.PIPE, stderr=subprocess.STDOUT)
import tempfile
tmp = tempfile.mkdtemp(prefix="seeddemo-")
shutil.copy(os.path.join(d, "demo.py"), tmp)
if os.path.isdir("/repo/tests"):          # demos may read data files (the official schemas) next to themselves
    os.symlink("/repo/tests", os.path.join(tmp, "tests"))
demo_without = subprocess.run(["/venv/bin/python", "demo.py"], cwd=tmp, env=dict(os.environ, PYTHONPATH="/repo"), stdout=subprocess.PIPE, stderr=subprocess.STDOUT)
shutil.rmtree(tmp, ignore_errors=True)
res = {"tests_with_change": tests, "demo_rc_with_change": demo_with.returncode, "demo_rc_without_change": demo_without.returncode, "checks": {}}
ok = ("34 passed" in tests and "21 failed" in tests and demo_with.returncode != 0 and demo_without.returncode == 0)
res["confirmed"] = ok
for p in props:
    r = subprocess.run(["/verif/check", p, "--tier", "quick"], cwd="/verif", env=dict(os.environ, CVSS_REPO=d), stdout=subprocess.PIPE, stderr=subprocess.STDOUT)
    out = r.stdout.decode()
    res["checks"][p] = {"rc": r.returncode, "violations": [l for l in out.splitlines() if l.startswith("VIOLATION") or l.strip().startswith("detail:")][:6],
                        "tail": out.strip().splitlines()[-1][:200] if out.strip() else ""}
print(json.dumps(res, indent=1))
