# -*- coding: utf-8 -*-
import sys, os, argparse, traceback
sys.path.insert(0, os.path.dirname(os.path.abspath(__file__)))
from common import MachineryError, DoesNotReturn

from registry import CHECKS
REG = dict((k, (v["mod"], "run")) for k, v in CHECKS.items())


def main():
    ap = argparse.ArgumentParser()
    ap.add_argument("prop")
    ap.add_argument("--tier", default=os.environ.get("VERIF_TIER", "quick"))
    ap.add_argument("--replay")
    a, rest = ap.parse_known_args()
    if rest and a.prop != "selftest":
        ap.error("unrecognized arguments: %s" % " ".join(rest))
    seed = int(os.environ.get("VERIF_SEED", "0") or 0)
    if a.prop == "selftest":
        import selftest
        return selftest.main()
    modname, fn = REG[a.prop]
    mod = __import__(modname, fromlist=[fn])
    try:
        if a.replay:
            import replay
            return replay.run(a.prop, a.replay)
        return getattr(mod, fn)(a.prop, a.tier, seed)
    except DoesNotReturn as e:
        # Returns.tla: every call into the library returns.  Every property quantifies over inputs for which the library reports,
        # accepts, rejects or prints something: an input on which it never comes back violates the property at hand.
        from common import Check
        import json
        c = Check(a.prop, a.tier, seed)
        c.rule = "Returns.tla: Called ~> Returned, read on the recording as a processor-time budget per input (heartbeat of the driver)"
        c.samples = [json.dumps(e.item)[:300]]
        c.violation("%s|does-not-return|%s" % (a.prop, e.script), "the library does not return on this input (%s): %s" % (e.why, json.dumps(e.item)[:600]),
                    {"driver": e.script, "item": e.item, "why": e.why, "list_key": e.list_key, "job_rest": e.job_rest})
        return c.finish()
    except MachineryError as e:
        print("MACHINERY-FAILURE %s: %s" % (a.prop, e))
        return 2
    except Exception:
        traceback.print_exc()
        print("MACHINERY-FAILURE %s: unexpected exception" % a.prop)
        return 2


if __name__ == "__main__":
    sys.exit(main())
