# -*- coding: utf-8 -*-
import sys, os, argparse, traceback
sys.path.insert(0, os.path.dirname(os.path.abspath(__file__)))
from common import MachineryError

from registry import CHECKS
REG = dict((k, (v["mod"], "run")) for k, v in CHECKS.items())


def main():
    ap = argparse.ArgumentParser()
    ap.add_argument("prop")
    ap.add_argument("--tier", default=os.environ.get("VERIF_TIER", "quick"))
    ap.add_argument("--replay")
    a, rest = ap.parse_known_args()
    if rest and a.prop != "selftest":
        ap.error("unrecognized arguments: %s" % " ".join(rest))
    seed = int(os.environ.get("VERIF_SEED", "0") or 0)
    if a.prop == "selftest":
        import selftest
        return selftest.main()
    modname, fn = REG[a.prop]
    mod = __import__(modname, fromlist=[fn])
    try:
        if a.replay:
            import replay
            return replay.run(a.prop, a.replay)
        return getattr(mod, fn)(a.prop, a.tier, seed)
    except MachineryError as e:
        print("MACHINERY-FAILURE %s: %s" % (a.prop, e))
        return 2
    except Exception:
        traceback.print_exc()
        print("MACHINERY-FAILURE %s: unexpected exception" % a.prop)
        return 2


if __name__ == "__main__":
    sys.exit(main())
