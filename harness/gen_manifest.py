# -*- coding: utf-8 -*-
"""Writes /verif/MANIFEST.json from the registry below (python3 harness/gen_manifest.py)."""
import json, os, sys
sys.path.insert(0, os.path.dirname(os.path.abspath(__file__)))
from registry import CHECKS, NOT_APPLICABLE

VERIF = os.path.dirname(os.path.dirname(os.path.abspath(__file__)))
man = {
    "version": 1,
    "setup_cmd": "cd /verif && ./setup.sh",
    "hooks": {
        "guard": "REDHATPRODUCTSECURITY_CVSS_VERIF",
        "enable": "no source hooks: the public API exposes the whole abstract state; drivers import the working tree of /repo in fresh interpreters (PYTHONPATH=/repo, -B) and observe interactive/CLI entry points through stdin/stdout; REDHATPRODUCTSECURITY_CVSS_VERIF=1 is exported to those interpreters but nothing in /repo reads it",
        "baseline_off_cmd": "cd /repo && /venv/bin/python -m pytest -ra -q -p no:cacheprovider --timeout=900 --continue-on-collection-errors",
        "source_commits": [],
        "add_only": True,
    },
    "engines": [
        {"name": "tlc-trace-validation", "path": "/verif/spec", "serves_properties": sorted(CHECKS),
         "kind_free_text": "explicit TLA+ specification (spec/*.tla) checked with TLC; conformance by trace validation of recorded implementation behaviour (code->spec) and replay of TLC-generated behaviours into the implementation (spec->code)"},
    ],
    "checks": [],
    "not_applicable": NOT_APPLICABLE,
    "notes": "See DESIGN.md. ./check <id> --tier quick|thorough; exit 0 ok, 1 violation (VIOLATION line), 2 machinery failure.",
}
for pid in sorted(CHECKS):
    c = CHECKS[pid]
    man["checks"].append({
        "property_id": pid,
        "quick_cmd": "cd /verif && ./check %s --tier quick" % pid,
        "thorough_cmd": "cd /verif && ./check %s --tier thorough" % pid,
        "evidence_file": "/verif/evidence/%s.json" % pid,
        "replay_cmd_template": "cd /verif && ./check %s --replay {path}" % pid,
        "engine": "tlc-trace-validation",
        "level_claimed": {"category": "model_checking", "text": c["text"], "design_ref": c["ref"]},
        "level_note": c["note"],
        "technique": c["technique"],
    })
json.dump(man, open(os.path.join(VERIF, "MANIFEST.json"), "w"), indent=1)
print("wrote MANIFEST.json with %d checks, %d not_applicable" % (len(man["checks"]), len(NOT_APPLICABLE)))
