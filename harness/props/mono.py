# -*- coding: utf-8 -*-
"""C14: a more severe metric value never lowers a score (relation only, no oracle scores)."""
import os, json, re
from common import Check, tlc_or_die, scratch_dir, rm, MachineryError
import tables


def run(prop, tier, seed):
    c = Check(prop, tier, seed)
    work = scratch_dir(prop)
    try:
        t4 = tables.v4_tables(tier, seed)
        t30 = tables.v3_tables(tier, seed, 0)
        t31 = tables.v3_tables(tier, seed, 1)
        t2 = tables.v2_tables(tier, seed)
        # ---- design level: the standard's own functions are monotone where C14 claims -----------
        q4, q30, q31, q2 = (tables.v4_tables("quick", seed), tables.v3_tables("quick", seed, 0),
                            tables.v3_tables("quick", seed, 1), tables.v2_tables("quick", seed))
        import copy

        def reduced(h, keep):
            """the same table with some outer dimensions restricted to a few options (design level only)"""
            h = copy.deepcopy(h)
            for d in h["outer"]:
                if d["name"] in keep:
                    d["opts"] = d["opts"][:keep[d["name"]]]
            return h
        if tier == "quick":
            dtabs = [q4[1], q4[2],
                     q31[1],                                                        # base metrics inner (base formula is shared by 3.0/3.1)
                     reduced(q30[0], {"AV": 1, "AC": 1, "UI": 1}), reduced(q30[3], {"AV": 1, "AC": 1, "UI": 1}),
                     reduced(q31[3], {"AV": 1, "AC": 1, "UI": 1}), reduced(q30[2], {"AV": 1, "AC": 1, "UI": 1}), reduced(q31[2], {"AV": 1, "AC": 1, "UI": 1}),
                     q30[6], q31[6],
                     reduced(q2[0], {"AV": 1, "AC": 1}), reduced(q2[1], {"E": 2, "RL": 2, "RC": 1})]
        else:
            dtabs = [q4[1], q4[2]] + q30[:4] + q30[6:7] + q31[:4] + q31[6:7] + q2[:2]
        p, n = tables.spec_rows(dtabs, work, "design")
        r = tlc_or_die("TraceScores", cfg="TraceScores_spec.cfg", env={"TRACE_FILE": p, "NEED_V3": "1", "NEED_V2": "1"}, timeout=7200)
        c.add_tlc("design: specification's own scores are monotone (Mode=spec)", r)
        bad = [l for l in r.lines if l.startswith("FAIL ")]
        if bad:
            raise MachineryError("the specification itself is not monotone where C14 claims: %s" % bad[0][:400])
        c.extra["design_step_comparisons"] = sum(int(l.split()[2]) for l in r.lines if l.startswith("CMP "))
        # informational: where the 3.0 standard is non-monotone (derives the exemption)
        p, n = tables.spec_rows([reduced(q30[3], {"AV": 1, "AC": 1, "UI": 1}), reduced(q30[4], {"MAV": 1, "MAC": 1, "MUI": 1})] if tier == "quick" else [q30[3], q30[4]], work, "design30")
        r = tlc_or_die("TraceScores", cfg="TraceScores_specall.cfg", env={"TRACE_FILE": p, "NEED_V3": "1", "NEED_V2": "1"}, timeout=7200)
        c.add_tlc("design: v3.0 environmental score without the exemption (Mode=specall)", r)
        mets = set()
        for l in r.lines:
            if l.startswith("FAIL "):
                mets.update(re.findall(r'"(\w+)"', l.split("metrics=")[-1].replace(chr(92), "")))
        c.extra["v3_0_standard_nonmonotone_in"] = sorted(mets)
        if not mets <= {"C", "I", "A", "CR", "IR", "AR", "MC", "MI", "MA"}:
            raise MachineryError("3.0 standard non-monotone outside the exempted metrics: %s" % sorted(mets))
        # ---- code -> spec: recorded tables, relation-only ----------------------------------------
        alltabs = t4 + t30 + t31 + t2
        files, total = tables.record(alltabs, work, seed, nsamples=1)
        c.evaluations = total
        ncmp, nrows = 0, 0
        for path, nr, nent in files:
            r = tlc_or_die("TraceScores", cfg="TraceScores_mono.cfg", env={"TRACE_FILE": path, "NEED_V3": "1", "NEED_V2": "1"}, timeout=7200)
            c.add_tlc("TraceScores mono %s" % os.path.basename(path), r)
            if r.distinct != 2 * nr:
                raise MachineryError("TLC judged %d of %d rows" % (r.distinct // 2, nr))
            nrows += nr
            data = None
            for l in r.lines:
                if l.startswith("CMP "):
                    ncmp += int(l.split()[2])
                elif l.startswith("FAIL "):
                    m = re.match(r"FAIL (\d+) (.*)", l)
                    what = m.group(2)
                    vm = re.match(r"mono (\S+) -> (\S+)", what)
                    key = "%s|%s->%s" % (prop, vm.group(1), vm.group(2)) if vm else "%s|%s" % (prop, what[:40])
                    c.violation(key, what, {"from": vm.group(1), "to": vm.group(2)} if vm else None)
            os.remove(path)
        c.traces = nrows
        c.nontrivial = ncmp
        c.extra["step_comparisons"] = ncmp
        if ncmp < 1000:
            raise MachineryError("vacuous: only %d step comparisons" % ncmp)
        c.exhaustive = (tier == "thorough")
        c.rule = ("recorded score tables (same layouts as C01-C03, canonical spelling so that neighbours differ in exactly "
                  "one spelled metric); TLC derives from the specification's severity order which entries are one "
                  "severity step apart in one inner dimension and compares the *observed* scores of each such pair; "
                  "distinct_nontrivial = number of (pair, slot) comparisons made")
        c.samples = [{"ver": h["ver"], "minor": h["minor"], "inner": [d["name"] for d in h["inner"]],
                      "rows": len(tables.rows_of(1, h)), "entries_per_row": tables.size_inner(h)} for h in alltabs[:8]]
        c.assumptions = ["severity order of metric values: spec/Tables*.tla (Rank2, Rank3, v4 level tables)",
                         "no oracle scores are consulted in the binding run"]
        return c.finish()
    finally:
        rm(work)
