# -*- coding: utf-8 -*-
"""C17: the command-line calculator (stage machine model-checked; TLC-enumerated configurations
made concrete, run as subprocesses, judged by TraceCli.tla)."""
import os, json, random, re
from common import Check, tlc_or_die, scratch_dir, rm, MachineryError, esc, parse_gen
import corpus
from props.strings import record_events, judge

UNIVERSAL = ["N", "L", "H", "U", "C", "P", "X", "ND", "A", "R"]
FLAGARG = {"2": "-2", "3": "-3", "4": "-4", "a": "-a", "n": "-n", "j": "-j"}
SEL = {"2": ("2", -1), "3": ("3", 0), "4": ("4", -1)}


LONG = {"-a": "--all", "-n": "--no-colors", "-j": "--json", "-v": "--vector"}


def typed(rnd, args):
    """one way of typing a normalised argument list: long names, unambiguous abbreviations, clusters of short flags, values attached"""
    style = rnd.random()
    if style < 0.45:
        return list(args)
    out, k, cluster = [], 0, ""

    def flush():
        if cluster:
            out.append("-" + cluster)
        return ""
    while k < len(args):
        a = args[k]
        val = args[k + 1] if a == "-v" and k + 1 < len(args) else None
        r = rnd.random()
        if a in LONG and r < 0.35:
            cluster = flush()
            name = LONG[a]
            if rnd.random() < 0.5:
                name = name[:rnd.randrange(4, len(name) + 1)]      # "--a" .. are unambiguous here from three characters on; keep four
            if val is not None:
                out += [name + "=" + val] if rnd.random() < 0.5 else [name, val]
            else:
                out.append(name)
        elif a == "-v":
            if val is None:
                cluster = flush()
                out.append(a)
            elif r < 0.7 and val != "" and not val.startswith("="):          # ("-v=VALUE" means VALUE to argparse: see CmdLine.tla)
                out.append("-" + cluster + "v" + val)             # value attached, possibly after a cluster
                cluster = ""
            else:
                out += ["-" + cluster + "v", val]
                cluster = ""
        elif r < 0.8:
            cluster += a[1:]
        else:
            cluster = flush()
            out.append(a)
        k += 2 if val is not None else 1
    flush()
    return out


def concretise(rnd, cfg):
    flags = [f for f in cfg["flags"]]
    args = [FLAGARG[f] for f in flags]
    rnd.shuffle(args)
    vflags = [f for f in flags if f in "234"]
    item = {"stdin": []}
    if cfg["vkind"] != "absent":
        ver, minor = SEL[rnd.choice(vflags)] if vflags else ("3", rnd.choice([0, 1]))
        g = corpus.random_assignment(rnd, ver)
        if minor == 0 and ver == "3" and not vflags:
            minor = rnd.choice([0, 1])
        s = corpus.spell(ver, rnd.choice([0, 1]) if ver == "3" else -1, g)
        if cfg["vkind"] == "invalid":
            k = rnd.random()
            if k < 0.4:
                s = corpus.mutate(rnd, s, ver)
            elif k < 0.7:
                other = rnd.choice([v for v in "234" if v != ver])
                s = corpus.random_vector(rnd, other)[3]
            else:
                s = rnd.choice(["x", "CVSS:3.1/", "AV:N", "7.5", "CVSS:4.0/AV:N", " ", "/"])
            if rnd.random() < 0.35:
                # characters that command-line conventions give a meaning to (option files, home directories, variables, globs, ...)
                # in front of / behind / instead of the vector: to the calculator they are just an invalid VECTOR
                ch = rnd.choice(list("@+~$%!*?#&;|<>()[]{}^`'\"=,.:/\\") + ["@@", "@/dev/null", "@-", "~/", "$HOME", "%s", "*.*", "=x", "file:", "--"[:0] + "+v"])
                s = rnd.choice([ch + s, s + ch, ch])
            s = s.replace("\x00", "0")          # a NUL byte cannot occur in an argument vector
            if s.startswith("-") or s == "":
                s = "x" + s
        pos = rnd.randrange(len(args) + 1)
        args = args[:pos] + ["-v", s] + args[pos:]
    else:
        if rnd.random() < 0.3:
            args += ["-v", ""]
        n = 400 if cfg["ikind"] == "complete" else rnd.randrange(0, 12)
        item["stdin"] = [rnd.choice([a, a.lower()]) for a in (UNIVERSAL * 40)[:n]]
    item["args"] = [esc(a) for a in args]
    item["argv"] = [esc(a) for a in typed(rnd, args)]
    item["stdin"] = [esc(a) for a in item["stdin"]]
    return item


def run(prop, tier, seed):
    c = Check(prop, tier, seed)
    rnd = random.Random(seed * 1000003 + 17)
    work = scratch_dir(prop)
    big = tier == "thorough"
    try:
        r = tlc_or_die("MC_Cli", workers=1, timeout=600)
        c.add_tlc("MC_Cli: every path of the stage machine exits with status 0; selection is a flagged version", r)
        cfgs = [parse_gen(l) for l in r.lines if l.startswith("GEN ")]
        if len(cfgs) != 64 * 3 * 2:
            raise MachineryError("expected 384 configurations from MC_Cli, got %d" % len(cfgs))
        items = []
        for rep in range(1 if not big else 12):
            items += [concretise(rnd, cf) for cf in cfgs]
        # extra: every numeric-leniency variant of the version prefix as VECTOR (the CLI must print the library's error, never crash)
        for s in corpus.prefix_variants(rnd):
            s = s.replace("\x00", "0")
            items.append({"args": [esc(a) for a in rnd.choice([[], ["-3"], ["-4"], ["-j"]]) + ["-v", s]], "stdin": []})
        # extra: every character that command-line conventions give a meaning to, in front of a valid vector and alone, as VECTOR
        for ch in list("@+~$%!*?#&;|<>()[]{}^`'\"=,.:/\\") + ["@@", "@/dev/null", "@-", "~/", "$HOME", "%s", "*.*", "=x", "file:"]:
            v_ = rnd.choice("234")
            for s in (ch + corpus.random_vector(rnd, v_)[3], ch):
                a_ = rnd.choice([[], ["-" + v_], ["-j"], ["-" + v_, "-j"]]) + ["-v", s]
                items.append({"args": [esc(a) for a in a_], "argv": [esc(a) for a in a_], "stdin": []})
        # extra: interactive entry with a very long run of rejected answers before the accepted ones
        for fl in ([], ["-2"], ["-3"], ["-4"]):
            items.append({"args": [esc(a) for a in fl], "stdin": [esc(a) for a in ["junk"] * 1300 + (UNIVERSAL * 40)[:400]]})
        # extra: the near-miss corpus of the constructors (fault pairs, format / pattern fragments inside prefix, metric and value, quoting
        # wrappers, look-alike characters, grammar tokens at unexpected places) as VECTOR under the flag of the version it was derived from:
        # whatever the library says about them, the calculator prints that and exits with status 0
        nm = [t for t in corpus.fragment_sweep(rnd) + corpus.wrapper_sweep(rnd) + rnd.sample(corpus.confusable_sweep(rnd), 120) + corpus.fault_pairs(rnd, 1)
              if t and not t.startswith("-") and "\x00" not in t and len(t) < 3000]
        if not big and len(nm) > 900:
            nm = rnd.sample(nm, 900)
        for t in nm:
            fl = ["-4"] if "CVSS:4" in t else (["-3"] if "CVSS:3" in t else ["-2"])
            a_ = rnd.choice([fl, fl + ["-j"], fl]) + ["-v", t]
            items.append({"args": [esc(a) for a in a_], "argv": [esc(a) for a in a_], "stdin": []})
        # extra: interactive entry where every accepted answer is preceded by answers that are no legal value of anything (fields and
        # chunks of vectors, several colons, pattern / format characters, look-alike letters, control characters, very long lines)
        for fl in ([], ["-2"], ["-3"], ["-4"], ["-a"], ["-4", "-a", "-n"], ["-2", "-a", "-j"], ["-3", "-a"]):
            for rep in range(1 if not big else 6):
                wild = corpus.wild_answers(rnd, 400)
                good = (UNIVERSAL * 40)[:400]
                mix = []
                for k_, g_ in enumerate(good):
                    mix += [wild[(k_ * 3 + j_) % len(wild)] for j_ in range(rnd.choice([0, 1, 1, 2, 3]))] + [g_]
                items.append({"args": [esc(a) for a in fl], "stdin": [esc(a) for a in mix]})
        # extra: valid vectors of every version under every single version flag with and without -j
        for _ in range(150 if not big else 4000):
            ver = rnd.choice("234")
            s = corpus.random_vector(rnd, ver)[3]
            fl = rnd.choice([[], ["-2"], ["-3"], ["-4"]]) + (["-j"] if rnd.random() < 0.5 else [])
            items.append({"args": [esc(a) for a in fl + ["-v", s]], "stdin": []})
        # ambient settings of the process: output encodings that cannot represent everything, locale, warnings as errors
        envs = [{"PYTHONIOENCODING": "ascii"}, {"PYTHONIOENCODING": "latin-1"}, {"PYTHONIOENCODING": "cp1252"}, {"LC_ALL": "C", "PYTHONUTF8": "0", "PYTHONCOERCECLOCALE": "0"},
                {"PYTHONWARNINGS": "error"}, {"PYTHONDEVMODE": "1"}, {"COLUMNS": "20"}, {"TERM": "dumb"}, {"NO_COLOR": "1"}]
        from common import PYFLAGS, unesc

        def ascii_only(it):
            return all(ord(ch) < 128 for a in it["args"] + it.get("stdin", []) for ch in unesc(a))

        def restricts_output(e_):
            return "PYTHONIOENCODING" in e_ or "LC_ALL" in e_
        for k_, it in enumerate(items):
            if k_ % 4 == 2:
                e_ = envs[(k_ // 4) % len(envs)]
                # a stream that cannot represent every character is paired with inputs it can represent: the calculator quotes its input
                # in error messages, and it cannot be asked to print what the stream refuses - it must not *introduce* such characters
                if restricts_output(e_) and not ascii_only(it):
                    e_ = envs[4 + (k_ // 4) % (len(envs) - 4)]
                it["env"] = e_
            elif k_ % 4 == 0:
                it["pyflags"] = PYFLAGS[(k_ // 4) % len(PYFLAGS)]          # interpreter options of the calculator's own process
            elif k_ % 8 in (1, 3) and "-v" in it["args"] and it["args"][-1] != "" and not it["stdin"]:
                # started with a standard descriptor closed (only with -v VECTOR: the interpreter's own input() refuses to run without them)
                it["close"] = "stdout" if (k_ // 8) % 2 == 0 else "stderr"
        # ... and, systematically, every ambient setting x every kind of path through the calculator (valid / invalid VECTOR, complete /
        # cut-short / empty interactive entry; with and without -j): the rotation above leaves most of these pairs to chance
        kinds = {}
        for cf in cfgs:
            kinds.setdefault((cf["vkind"], cf["ikind"] if cf["vkind"] == "absent" else "-", "j" in cf["flags"]), []).append(cf)
        ambient = [("pyflags", f) for f in PYFLAGS] + [("env", e_) for e_ in envs] + [("close", "stdout"), ("close", "stderr")]
        nsweep = 0
        for what, val in ambient:
            for kd, cands in sorted(kinds.items(), key=lambda kv: str(kv[0])):
                if what == "close" and kd[0] == "absent":
                    continue
                it = concretise(rnd, rnd.choice(cands))
                for _ in range(20):
                    if not (what == "env" and restricts_output(val)) or ascii_only(it):
                        break
                    it = concretise(rnd, rnd.choice(cands))
                else:
                    continue
                it[what] = val
                items.append(it)
                nsweep += 1
        c.extra["ambient_x_path_sweep_runs"] = nsweep
        ev = record_events(items, work, name="cli", script="cli.py")
        judge(c, prop, ev, work, "cli", module="TraceCli", cfg="TraceCli.cfg", extra_states=0,
              keyfn=lambda e, what: "C17|%s|flags=%s" % (what, ",".join(sorted(a for a in e["args"] if a.startswith("-") and len(a) <= 12 and a not in ("-v", "--vector")))))
        c.evaluations = len(ev)
        kinds = {}
        for e in ev:
            sel = [b for b in e["ref"]]
            k = "interactive" if not any(a in ("-v", "--vector") for a in e["args"]) or "" in e["args"] else "vector"
            kinds[k] = kinds.get(k, 0) + 1
        c.extra["runs_by_kind"] = kinds
        c.nontrivial = len(set(json.dumps([e["args"], e["stdin"]]) for e in ev))
        c.rule = ("all 2^6 flag sets x {no vector, valid, invalid vector} x {complete, truncated stdin} enumerated by TLC from the stage machine "
                  "(MC_Cli), made concrete with seeded vectors / answer scripts, run as `python -m cvss.cvss_calculator` subprocesses; the "
                  "driver also records what the library API reports for the vector in play under every candidate version; TLC (TraceCli.tla) "
                  "demands exit status 0, no traceback, and the scores with ratings, cleaned vector, RH vector, sorted minimal JSON or the "
                  "library's error message of a flagged version (layout-lenient, injective score lines)")
        c.samples = [{"args": e["args"], "stdin_len": len(e["stdin"]), "rc": e["rc"], "stdout_tail": e["stdout"][-6:]} for e in ev[::max(1, len(ev) // 4)]][:4]
        c.assumptions = ["TLC; VECTOR values beginning with '-' are excluded (argparse syntax); the reference for printed values is the library API of the same tree, as the property states"]
        return c.finish()
    finally:
        rm(work)
