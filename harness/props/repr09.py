# -*- coding: utf-8 -*-
"""C09: scores are well-formed floats, severities follow the official scale and agree."""
import os, json
from common import Check, tlc_or_die, scratch_dir, rm, MachineryError
import tables

EDGES = {"2": [0, 39, 40, 69, 70, 100], "3": [0, 39, 40, 69, 70, 89, 90, 100], "4": [0, 1, 39, 40, 69, 70, 89, 90, 100]}


def run(prop, tier, seed):
    c = Check(prop, tier, seed)
    work = scratch_dir(prop)
    try:
        tabs = tables.v4_tables(tier, seed) + tables.v3_tables(tier, seed, 0) + tables.v3_tables(tier, seed, 1) + tables.v2_tables(tier, seed)
        if tier == "quick":
            # the transposed layouts repeat the same vectors; every 3rd row of the big v4 table
            tabs = [h for h in tabs if [d["name"] for d in h["outer"]] != ["E", "RL", "RC"]]
        allrows = [r for t, h in enumerate(tabs, 1) for r in tables.rows_of(t, h)]
        files, total = tables.record(tabs, work, seed, c09=True, rows=allrows, nsamples=0, max_entries_per_file=10 ** 12)
        c.evaluations = total
        distinct = {}
        nrows = 0
        for path, nr, nent in files:
            d = json.load(open(path))
            nrows += nr
            for row in d["rows"]:
                ver = tabs[row["t"] - 1]["ver"]
                for slot, rep, typ, sev, jsev, attr in row["rep"]:
                    distinct.setdefault((ver, slot, rep, typ, sev, jsev, attr), 0)
                    distinct[(ver, slot, rep, typ, sev, jsev, attr)] += 1
            os.remove(path)
        ev = [{"ver": k[0], "slot": k[1], "repr": k[2], "type": k[3], "sev": k[4], "jsev": k[5], "attr": k[6]} for k in sorted(distinct)]
        p = os.path.join(work, "repr.json")
        json.dump(ev, open(p, "w"))
        r = tlc_or_die("TraceRepr", env={"TRACE_FILE": p})
        c.add_tlc("TraceRepr over the distinct (version, slot, repr, type, severities) observations", r)
        if r.distinct != 2 * len(ev):
            raise MachineryError("TLC judged %d of %d observations" % (r.distinct // 2, len(ev)))
        for l in r.lines:
            if l.startswith("FAIL "):
                _, idx, what = l.split(" ", 2)
                e = ev[int(idx) - 1]
                c.violation("%s|%s|v%s|slot%d|%s" % (prop, what, e["ver"], e["slot"], e["repr"]), "%s: %s" % (what, json.dumps(e)), e)
        c.traces = nrows
        c.nontrivial = len(ev)
        produced = {}
        for k in distinct:
            if k[3] == "float":
                try:
                    produced.setdefault("v%s slot%d" % (k[0], k[1]), set()).add(int(round(float(k[2]) * 10)))
                except ValueError:
                    pass
        c.extra["distinct_scores_per_slot"] = dict((k, len(v)) for k, v in sorted(produced.items()))
        c.extra["band_edges_produced"] = dict((k, sorted(x for x in v if x in EDGES[k[1]])) for k, v in sorted(produced.items()))
        c.extra["band_edges_not_exercised"] = dict((k, sorted(x for x in EDGES[k[1]] if x not in v)) for k, v in sorted(produced.items()))
        c.rule = ("every constructor call of the score tables also records repr(score), type, severities() entry, the JSON "
                  "severity and (v4) the severity attribute; the distinct observation tuples are judged by TLC "
                  "(TraceRepr.tla); distinct_nontrivial = number of distinct observation tuples")
        c.samples = ev[:3] + ev[-3:]
        c.assumptions = ["severity is compared with the band of the observed score, not of the oracle's score"]
        return c.finish()
    finally:
        rm(work)
