# -*- coding: utf-8 -*-
"""C13: parse_cvss_from_text is total, sound, complete for delimited vectors, duplicate-free."""
import os, json, random
from common import Check, tlc_or_die, scratch_dir, rm, MachineryError, esc, parse_gen
import corpus
from props.strings import record_events, judge


def assembled_texts(rnd, n):
    fill = [" ", "\n", ". ", ", ", " (", ") ", "x", ":", "/", "1", "3.1", "CVSS:", "CVSS:3.", " see ", "score 7.5 ", "\t", "é", "=",
            # delimiters outside [A-Za-z:/] that a careless character class could take for letters
            "\u212a", "\u017f", "\u0130", "\u0131", "\uff21", "\uff5a", "\u00df", "\u0391", "_", "-", "0", "9", "\x00", "\u200b",
            # code points that text pipelines drop, replace or fold: lone surrogates (surrogateescape), BOM, soft hyphen, joiners, bidi marks, NEL / LS / PS
            "\udc80", "\ud800", "\udfff", "\ufeff", "\u00ad", "\u200d", "\u200e", "\u202e", "\u0085", "\u2028", "\u2029", "\ufffd", "\x7f", "\x1b", "\x0b", "\x0c", "\r"]
    out = []
    for _ in range(n):
        parts = []
        for _ in range(rnd.randrange(1, 6)):
            r = rnd.random()
            ver = rnd.choice("2334")
            _, minor, g, s = corpus.random_vector(rnd, ver)
            if r < 0.55:
                parts.append(s)
            elif r < 0.7:
                parts.append(corpus.mutate(rnd, s, ver))
            elif r < 0.8 and parts:
                parts.append(parts[rnd.randrange(len(parts))])       # the same vector again
            elif r < 0.9:
                order = list(g)
                rnd.shuffle(order)
                parts.append(corpus.spell(ver, minor, g, order))      # another spelling
            else:
                parts.append(rnd.choice(fill) * rnd.randrange(1, 30))
            if rnd.random() < 0.8:
                parts.append(rnd.choice(fill))                         # else glued to the next piece
        out.append("".join(parts))
    return out


def pattern_texts(rnd, npools):
    """every arrangement (length 3 and 4) of a small pool of related vectors: A, A in another spelling, a different vector B with the
    same base score as A (it differs in optional metrics only, or is A's 3.0 / 3.1 twin), an unrelated C"""
    import itertools
    out = []
    for k in range(npools):
        ver = "23"[k % 2]
        _, minor, g, a = corpus.random_vector(rnd, ver, p_opt=0.15)
        order = list(g)
        rnd.shuffle(order)
        a2 = corpus.spell(ver, minor, g, order)
        gb = dict(g)
        opt = [m for m in corpus.ORDER[ver] if m not in corpus.MAND[ver]]
        if ver == "3" and k % 4 == 1:
            b = corpus.spell(ver, 1 - minor, g)
        else:
            m = rnd.choice(opt[:3])             # a temporal metric: the base score stays what it is
            gb[m] = rnd.choice([v for v in corpus.VALS[ver][m] if v != corpus.ND[ver] and v != g.get(m)])
            b = corpus.spell(ver, minor, gb)
        c_ = corpus.random_vector(rnd, rnd.choice("23"))[3]
        pool = [a, a2, b, c_]
        sep = rnd.choice([" ", "\n", ", ", " and "])
        for n in (3, 4):
            for combo in itertools.product(pool, repeat=n):
                out.append(sep.join(combo))
        # one vector embedded at a field boundary of another one's text (glued), with and without a free-standing copy of it elsewhere
        for x in pool:
            for y in pool:
                if x == y:
                    continue
                cuts = [i for i, ch in enumerate(y) if ch == "/"]
                for cut in rnd.sample(cuts, min(3, len(cuts))):
                    emb = y[:cut + 1] + x + y[cut + 1:]
                    emb2 = y[:cut] + x + y[cut:]
                    out += [emb, x + sep + emb, emb + sep + x, emb2, x + sep + emb2, y + sep + x + sep + emb]
    return out


def run(prop, tier, seed):
    c = Check(prop, tier, seed)
    rnd = random.Random(seed * 1000003 + 13)
    work = scratch_dir(prop)
    big = tier == "thorough"
    try:
        # spec -> code: TLC enumerates every text of at most 3 (thorough: 4 sampled) vocabulary pieces
        r = tlc_or_die("MC_GenText", workers=1, timeout=3600)
        c.add_tlc("MC_GenText: all texts of <= 3 pieces from a 24-piece vocabulary", r)
        gen = [parse_gen(l)["text"] for l in r.lines if l.startswith("GEN ")]
        if len(gen) < 14000:
            raise MachineryError("generator produced only %d texts" % len(gen))
        if not big:
            gen = gen[:600] + rnd.sample(gen[600:], 5400)
        # boundary inputs: the shortest / longest vectors of every version, alone, delimited and glued
        ext = []
        for ver in "234":
            for v in corpus.extremal_vectors(rnd, ver):
                ext += [v[3], "x " + v[3] + " y", "(" + v[3] + ")", v[3] + "\n" + v[3], v[3] + "x", "CVSS:" + v[3]]
        # every special delimiter directly before and after valid vectors
        for dl in ["\u212a", "\u017f", "\u0130", "\u0131", "\uff21", "\uff5a", "\u00df", "_", "-", "7", "\x00", "\u200b", "\u0661",
                   "\udc80", "\ud800", "\udfff", "\ufeff", "\u00ad", "\u200d", "\u200e", "\u202e", "\u0085", "\u2028", "\u2029", "\ufffd", "\x7f", "\x1b", "\x0b", "\x0c", "\r"]:
            for ver in "23":
                s_ = corpus.random_vector(rnd, ver)[3]
                ext += [dl + s_, s_ + dl, "300" + dl + s_ + dl + "ok", "advisory" + dl + s_ + dl + "end", s_[:len(s_) // 2] + dl + s_[len(s_) // 2:], s_.replace("/", dl + "/", 1)]
        ext += [x for v in corpus.prefix_variants(rnd) for x in (v, "see " + v + ".")]
        ext += pattern_texts(rnd, 6 if not big else 60)
        texts = gen + ext + assembled_texts(rnd, 4000 if not big else 80000) + corpus.arbitrary_text(rnd, 1500 if not big else 20000)
        texts = list(dict.fromkeys(texts))
        items = [{"op": "text", "text": esc(t)} for t in texts]
        ev = record_events(items, work)
        judge(c, prop, ev, work, "texts", module="TraceText", cfg="TraceText.cfg", extra_states=0,
              keyfn=lambda e, what: "C13|%s" % what)
        c.evaluations = len(ev)
        nres = [len(e["out"].get("res", [])) for e in ev]
        c.nontrivial = sum(1 for n in nres if n > 0)
        c.extra["texts_with_0_1_2_3plus_results"] = [nres.count(0), nres.count(1), nres.count(2), sum(1 for n in nres if n > 2)]
        c.extra["texts_generated_by_tlc"] = len(gen)
        c.rule = ("texts: (spec->code) TLC-enumerated sequences of vocabulary pieces - valid v2/v3.0/v3.1/v4 vectors, the 26- and 25-character v2 "
                  "vectors, near-valid vectors, broken prefixes, fillers, glue; (code->spec) seeded assemblies of random vectors/mutants/"
                  "repetitions/other spellings with fillers or glued, and hypothesis text; each judged by TLC against the contract of "
                  "TextParser.tla; distinct_nontrivial = texts from which at least one object was extracted")
        c.samples = [{"text": e["text"][:200], "result": [x["vector"] for x in e["out"].get("res", [])]} for e in ev[::max(1, len(ev) // 6)]][:6]
        c.assumptions = ["TLC; grammar of Vector.tla; texts travel in the injective ASCII escape, whose characters lie outside [A-Za-z:/]"]
        return c.finish()
    finally:
        rm(work)
