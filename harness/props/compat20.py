# -*- coding: utf-8 -*-
"""C20: identical behaviour under every supported interpreter (2.7, 3.6 ... 3.13)."""
import os, json, random, re, subprocess
from common import Check, tlc_or_die, scratch_dir, rm, MachineryError, esc, REPO, REPO_PY, repo_env
import corpus
from props.strings import record_events, judge
from props import interactive16, cli17

PYENV = "/root/.pyenv/versions"
ALL = ["2.7.18", "3.6.15", "3.7.16", "3.8.18", "3.9.18", "3.10.13", "3.11.7", "3.12.1", "3.13.0"]
MODULES = ["cvss", "cvss.cvss2", "cvss.cvss3", "cvss.cvss4", "cvss.constants2", "cvss.constants3", "cvss.constants4",
           "cvss.exceptions", "cvss.parser", "cvss.interactive", "cvss.cvss_calculator"]


def corpus_unesc(s):
    from common import unesc
    return unesc(s)


def norm_obj(o):
    """projection of an observation in which only outputs of the library remain"""
    if o.get("cls") != "ok":
        e = o.get("e", {})
        return {"cls": o.get("cls", "?"), "exc": e.get("exc", "-"), "is_cvss_error": e.get("is_cvss_error", False), "msg": e.get("msg", "-")}
    r = dict((k, o[k]) for k in ("cls", "scores", "reprs", "sev", "clean", "clean_np", "rh", "tv", "ev", "minor") if k in o)
    if "json" in o:
        r["json_sorted_full"] = o["json"]["sf"]
        r["json_sorted_minimal"] = o["json"]["sm"]
        r["json_unsorted_full_content"] = sorted(o["json"]["uf"])
        r["json_unsorted_minimal_content"] = sorted(o["json"]["um"])
    for k in ("re_clean", "re_rh", "asm"):
        if k in o:
            r[k] = json.dumps(o[k], sort_keys=True)
    return r


def norm(kind, e):
    if kind == "events":
        if e["op"] == "text":
            o = e["out"]
            if o["cls"] != "ok":
                return norm_obj(o)
            return {"cls": "ok", "type": o["type"], "results": sorted([r["ver"], r["vector"], r["clean"], r["minor"]] for r in o["res"])}
        return norm_obj(e["out"])
    if kind == "interactive":
        return {"events": [json.dumps(x, sort_keys=True) for x in e["events"]], "consumed": e["consumed"]}
    if kind == "cli":
        return {"rc": e["rc"], "traceback": e["traceback"], "stdout": [l.rstrip(" ") for l in e["stdout"]], "json_doc": e["json_doc"], "json_found": e["json_found"]}
    raise ValueError(kind)


def run(prop, tier, seed):
    c = Check(prop, tier, seed)
    rnd = random.Random(seed * 1000003 + 20)
    work = scratch_dir(prop)
    big = tier == "thorough"
    try:
        interps = ALL if big else ["2.7.18", "3.6.15", "3.13.0"]
        bins = dict((v, os.path.join(PYENV, v, "bin", "python")) for v in interps)
        for v, b in bins.items():
            if not os.path.exists(b):
                raise MachineryError("interpreter %s is not installed at %s" % (v, b))
        # 1. every module imports under every interpreter
        for v, b in sorted(bins.items()):
            for m in MODULES:
                p = subprocess.run([b, "-B", "-c", "import %s" % m], env=repo_env(), stdout=subprocess.PIPE, stderr=subprocess.PIPE)
                c.evaluations += 1
                if p.returncode != 0:
                    c.violation("C20|import|%s|%s" % (v.rsplit(".", 1)[0], m), "import %s fails under Python %s: %s" % (m, v, p.stderr.decode("utf-8", "replace")[-300:]),
                                {"python": v, "module": m})
        # 2. corpus
        nvec = 250 if not big else 4000
        items = []
        vs = []
        for ver in "234":
            vs += corpus.covering_vectors(rnd, ver)[:: (3 if not big else 1)]
            vs += [corpus.random_vector(rnd, ver) for _ in range(nvec)]
            vs += [(ver, (0 if s.startswith("CVSS:3.0") else 1) if ver == "3" else -1, None, s) for v_, s in corpus.coverage_vectors() if v_ == ver]
        vs += [x[:4] for x in corpus.lookup_cover_v4(rnd)][:: (1 if big else 2)]          # TLC-generated cover of the v4 lookup table
        items += [{"op": "construct", "ver": v[0], "s": esc(v[3]), "json": True} for v in vs]
        for s in corpus.near_misses(rnd, 600 if not big else 10000) + corpus.arbitrary_text(rnd, 150 if not big else 3000):
            items.append({"op": "construct", "ver": rnd.choice("234"), "s": esc(s), "json": False})
        pool = [(v[0], v[3], None) for v in vs[::5]]
        items += [{"op": "fromrh", "ver": ver, "s": esc(s), "json": False} for ver, s in corpus.rh_strings(rnd, 500 if not big else 8000, pool)]
        # number parsing / printing differs most between interpreters: wild score texts around the *true* base score
        truth = record_events([{"op": "construct", "ver": v, "s": esc(s), "json": False} for v, s, _ in pool[:120]], work, name="truth")
        pool2 = [(e["ver"], corpus_unesc(e["s"]), e["out"]["scores"][0]) for e in truth if e["out"]["cls"] == "ok"]
        items += [{"op": "fromrh", "ver": ver, "s": esc(s), "json": False} for ver, s in corpus.rh_numeric_wild(rnd, 700 if not big else 10000, pool2)]
        from props.text13 import assembled_texts, pattern_texts
        items += [{"op": "text", "text": esc(t)} for t in assembled_texts(rnd, 300 if not big else 5000)]
        items += [{"op": "text", "text": esc(t)} for t in pattern_texts(rnd, 2 if not big else 12)[:: (3 if not big else 1)]]          # arrangements of related vectors
        sess = interactive16.targeted_scripts(rnd)
        sess = sess[:: (12 if not big else 1)]
        r = tlc_or_die("MC_Cli", workers=1, timeout=600)
        c.add_tlc("MC_Cli configurations", r)
        from common import parse_gen
        cfgs = [parse_gen(l) for l in r.lines if l.startswith("GEN ")]
        clis = [cli17.concretise(rnd, cf) for cf in (cfgs[::3] if not big else cfgs)]
        kinds = [("events", "events.py", items), ("interactive", "interactive.py", sess), ("cli", "cli.py", clis)]
        ref = {}
        for kind, script, its in kinds:
            ref[kind] = [norm(kind, e) for e in record_events(its, work, name="ref-" + kind, script=script)]
        pairs = []
        for v in interps:
            for kind, script, its in kinds:
                try:
                    got = record_events(its, work, name="py%s-%s" % (v, kind), script=script, py=bins[v])
                except MachineryError as ex:
                    c.violation("C20|driver-crash|%s|%s" % (v.rsplit(".", 1)[0], kind), "the py2/3-common probe %s fails under Python %s: %s" % (script, v, str(ex)[-400:]), {"python": v})
                    continue
                for k, (it, g) in enumerate(zip(its, got)):
                    tag = "-"
                    if kind == "cli":
                        tag = "cli:" + ",".join(sorted(a for a in it["args"] if a in ("-2", "-3", "-4")))
                    elif kind == "events" and it["op"] == "fromrh" and "_" in it["s"].split("/")[0]:
                        tag = "rh-score-text-with-underscore"
                    elif kind == "events" and it["op"] == "fromrh" and re.search(r"\{(28|29|30|31)\}", it["s"].split("/")[0]):
                        tag = "rh-score-text-with-separator-control-character"
                    pairs.append({"python": v.rsplit(".", 1)[0], "kind": kind, "k": k, "ref": ref[kind][k], "got": norm(kind, g),
                                  "input": json.dumps(it)[:400], "tag": tag})
        c.evaluations += len(pairs)

        def keyfn(e, what):
            return "C20|py%s|%s|%s|%s" % (e["python"], e["kind"], re.sub(r"[^A-Za-z_,-]+", " ", what).strip().replace(" ", ","), e["tag"])
        judge(c, prop, pairs, work, "pairs", module="TraceCompat", cfg="TraceCompat.cfg", extra_states=0, keyfn=keyfn)
        c.nontrivial = len(items) + len(sess) + len(clis)
        c.extra["interpreters"] = interps
        c.extra["inputs_by_kind"] = {"api events": len(items), "builder sessions": len(sess), "command lines": len(clis)}
        c.rule = ("one corpus per run (vectors of every version with JSON, near-miss and arbitrary strings, RH strings, texts, answer scripts, "
                  "command lines) executed by py2/3-common probes under each interpreter of /root/.pyenv/versions and under the reference "
                  "/venv interpreter; TLC (TraceCompat.tla) compares every observation field by field with the reference; imports of all "
                  "11 modules are tried under each interpreter")
        c.samples = [{"python": p["python"], "kind": p["kind"], "input": p["input"][:160]} for p in pairs[::max(1, len(pairs) // 4)]][:4]
        c.assumptions = ["the reference interpreter's observation stands for the specification's (C01-C19 tie it to the specification)",
                         "key order of as_json(sort=False) and the order of the list built from the parser's set are not outputs of the library"]
        return c.finish()
    finally:
        rm(work)
