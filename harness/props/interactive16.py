# -*- coding: utf-8 -*-
"""C16: the interactive builder (design check of the machine, TLC-generated answer scripts
replayed into ask_interactively, step-by-step trace validation)."""
import os, json, random, re
from common import Check, run_tlc, tlc_or_die, scratch_dir, rm, MachineryError, esc, parse_gen
import corpus
from props.strings import record_events

BVER = {"2": "2", "3.0": "3", "3.1": "3", "4.0": "4"}


def case_variants(rnd, v):
    return [v, v.lower(), v.upper(), v.capitalize(), " " + v, v + "  ", "\t" + v if False else " " + v.lower() + " "]


def targeted_scripts(rnd):
    """Every metric x every legal value x spelling variants once; rejects before accepts; empty answers; EOF at every prompt."""
    items = []
    for bver, ver in BVER.items():
        for allm in (False, True):
            metrics = corpus.ORDER[ver] if allm else corpus.MAND[ver]
            base = {}
            for m in metrics:
                base[m] = corpus.VALS[ver][m][0]
            # complete sessions: metric m answered with each value in each spelling (others fixed)
            for m in metrics:
                for v in corpus.VALS[ver][m]:
                    for sp in (v, v.lower(), v.capitalize(), " " + v + " "):
                        items.append(("complete", bver, allm, metrics, dict(base, **{m: sp}), {}))
            # rejects before the accepted answer
            for m in metrics:
                junk = rnd.sample(["junk", "?", "Q", "ND" if ver != "2" else "X", "High", "0", ":", m, "N/A"], rnd.randrange(1, 4))
                junk = [j for j in junk if j.upper() not in [x.upper() for x in corpus.VALS[ver][m]]]
                items.append(("rejects", bver, allm, metrics, base, {m: junk}))
            # empty answers everywhere
            items.append(("empty", bver, allm, metrics, dict((m, "") for m in metrics), dict((m, [] if m not in corpus.MAND[ver] else []) for m in metrics)))
    out = []
    for kind, bver, allm, metrics, answers, rejects in items:
        script = []
        ver = BVER[bver]
        for m in metrics:
            script += rejects.get(m, [])
            a = answers[m]
            script.append(a)
            if kind == "empty" and m in corpus.MAND[ver]:
                script.append(corpus.VALS[ver][m][-1])     # an empty answer is not legal for a mandatory metric
        out.append({"bver": bver, "all": allm, "no_colors": rnd.random() < 0.7, "num": rnd.choice(["int", "float"]), "script": [esc(x) for x in script]})
    # very long runs of rejected answers before an accepted one (a question must be repeated as often as it takes)
    for bver, ver in BVER.items():
        metrics = corpus.MAND[ver]
        script = []
        for k, m in enumerate(metrics):
            if k in (0, len(metrics) - 1):
                script += [rnd.choice(["junk", "?", "", "0"]) for _ in range(1300)]
            script.append(corpus.VALS[ver][m][0])
        out.append({"bver": bver, "all": False, "no_colors": True, "num": "float", "script": [esc(x) for x in script]})
    # EOF at every prompt index of one complete script per version/mode
    for bver, ver in BVER.items():
        for allm in (False, True):
            metrics = corpus.ORDER[ver] if allm else corpus.MAND[ver]
            full = [rnd.choice(corpus.VALS[ver][m]) for m in metrics]
            for cut in range(len(full)):
                out.append({"bver": bver, "all": allm, "no_colors": True, "num": rnd.choice(["int", "float"]), "script": [esc(x) for x in full[:cut]]})
                # ... and Ctrl-C at every prompt index (the answer "\x03" stands for it): the interrupt leaves the builder, nothing is returned
                out.append({"bver": bver, "all": allm, "no_colors": True, "num": rnd.choice(["int", "float"]), "script": [esc(x) for x in full[:cut] + ["\x03"]], "abort": True})
    return out


def echo_scripts(rnd, work):
    """The builder's own output fed back as answers: a probing session per version/mode records what is printed before each
    question; every whitespace token of it, every run of two or more adjacent choices as printed (N/A, N/A/L/P), every hint
    with and without its parentheses, the whole prompt, and pairs of legal answers glued by separators are then offered at that
    question (each must be refused unless it is a legal value) before the legal answer."""
    from common import unesc
    probes = []
    for bver, ver in BVER.items():
        for allm in (False, True):
            metrics = corpus.ORDER[ver] if allm else corpus.MAND[ver]
            probes.append({"bver": bver, "all": allm, "no_colors": True, "num": "float", "script": [esc(corpus.VALS[ver][m][0]) for m in metrics]})
    rec = record_events(probes, work, name="probe", script="interactive.py")
    out = []
    for pr, s in zip(probes, rec):
        ver = BVER[pr["bver"]]
        metrics = corpus.ORDER[ver] if pr["all"] else corpus.MAND[ver]
        reads = [e for e in s["events"] if e["ev"] == "Read"]
        if len(reads) != len(metrics) or s["events"][-1]["ev"] != "Return":
            continue            # the probing session itself went wrong: the ordinary sessions report that
        for k, m in enumerate(metrics):
            legal = set(v.upper() for v in corpus.VALS[ver][m])
            cands = []
            prompt, shown = unesc(reads[k]["prompt"]), unesc(reads[k]["shown"])
            for tok in prompt.split() + shown.split():
                cands.append(tok)
                parts = tok.split("/")
                for a in range(len(parts)):
                    for b in range(a + 2, len(parts) + 1):
                        cands.append("/".join(parts[a:b]))
                cands += [tok + "/", "/" + tok] if tok.upper() in legal else []
            for hint in shown.split("\n")[-2].split(" | ") if "\n" in shown else []:
                cands += [hint, hint.replace("(", "").replace(")", "")]
            cands.append(prompt.strip())
            vals = corpus.VALS[ver][m]
            for sep in ("/", " ", ",", "|", "", ";", "\t"):
                a, b = rnd.choice(vals), rnd.choice(vals)
                cands += [a + sep + b, (a + sep + b).lower()]
            # illegal answers that a normalisation could turn into a legal one: separators between the letters of a value, doubled letters,
            # brackets / quotes / trailing punctuation around it
            for v_ in vals:
                for sep in (" ", "\t", "-", "_", ".", "\u200b", "/"):
                    if len(v_) > 1:
                        cands.append(sep.join(v_))
                cands += [v_ + v_, "(" + v_ + ")", "[" + v_ + "]", "'" + v_ + "'", '"' + v_ + '"', v_ + ".", v_ + ",", v_ + ";", v_ + ":", ":" + v_, "=" + v_, v_ + "\u200b", "\ufeff" + v_, v_ + "\x00", v_[:1] + "\u0301" + v_[1:]]
            # answers shaped like the grammar the builder is producing: this metric's field, another metric's, two fields, a prefixed
            # field, a whole vector, several colons (what gets pasted from an existing vector)
            other = metrics[(k + 1) % len(metrics)]
            whole = corpus.random_vector(rnd, ver)[3]
            for v_ in vals:
                cands += [m + ":" + v_, (m + ":" + v_).lower(), m + "=" + v_, m + " " + v_, m + ":" + v_ + "/", "/" + m + ":" + v_,
                          m + ":" + v_ + "/" + other + ":" + corpus.VALS[ver][other][0], other + ":" + v_, corpus.prefix(ver, 1 if ver == "3" else -1) + m + ":" + v_]
            cands += [whole, "/".join(whole.split("/")[:3]), "::", "a:b:c", m + "::" + vals[0], ":" + vals[0] + ":", m + ":", ":" + m]
            # one letter of a legal value replaced by what case mapping, the pattern engine or normalisation take for that letter
            for v_ in vals:
                for pos_ in range(len(v_)):
                    for c_ in corpus.confusables(v_[pos_], cap=8):
                        cands.append(v_[:pos_] + c_ + v_[pos_ + 1:])
            cands += [c_.lower() for c_ in cands]
            cands = [c_ for c_ in dict.fromkeys(cands) if c_.strip() and c_.strip().upper() not in legal]
            script = [corpus.VALS[ver][x][0] for x in metrics[:k]] + cands + [corpus.VALS[ver][x][0] for x in metrics[k:]]
            out.append({"bver": pr["bver"], "all": pr["all"], "no_colors": rnd.random() < 0.7, "num": rnd.choice(["int", "float"]), "script": [esc(x) for x in script]})
    return out


def validate(c, sessions, work, check_pattern, name, cfg=None):
    p = os.path.join(work, name + ".json")
    json.dump(sessions, open(p, "w"), separators=(",", ":"))
    r = tlc_or_die("TraceInteractive", cfg=cfg or "TraceInteractive_%s.cfg" % ("TRUE" if check_pattern else "FALSE"), env={"TRACE_FILE": p}, timeout=3600)
    c.add_tlc("TraceInteractive (%s, %s)" % (name, cfg or "CheckPattern=%s" % check_pattern), r)
    acc, rej = set(), {}
    for l in r.lines:
        m = re.match(r"ACC (\d+)", l)
        if m:
            acc.add(int(m.group(1)))
        m = re.match(r"REJ (\d+) at (\d+) (.*)", l)
        if m:
            t = int(m.group(1))
            if t not in rej or int(m.group(2)) > rej[t][0]:
                rej[t] = (int(m.group(2)), m.group(3))
    if acc | set(rej) != set(range(1, len(sessions) + 1)):
        raise MachineryError("TLC gave no verdict for %d sessions" % (len(sessions) - len(acc | set(rej))))
    os.remove(p)
    return acc, rej


def run(prop, tier, seed):
    c = Check(prop, tier, seed)
    rnd = random.Random(seed * 1000003 + 16)
    work = scratch_dir(prop)
    big = tier == "thorough"
    try:
        # design level: the builder machine itself
        r = tlc_or_die("MC_Interactive", workers=8, timeout=3600)
        c.add_tlc("MC_Interactive: machine invariants + termination, 4 versions x 2 modes x 5-answer alphabet", r)
        # spec -> code: answer scripts generated by TLC (simulation of GenInteractive) + targeted scripts
        want = 1500 if not big else 30000
        r = run_tlc("GenInteractive", workers=1, simulate="num=%d" % want, depth=300, seed=seed + 7, timeout=20 if not big else 240)
        gen = []
        for l in r.lines:
            if l.startswith("GEN "):
                try:
                    gen.append(parse_gen(l))
                except ValueError:
                    pass
        if len(gen) < 5:        # time-bounded simulation: under heavy load nothing may be printed in time - once more with a longer budget
            r = run_tlc("GenInteractive", workers=1, simulate="num=%d" % want, depth=300, seed=seed + 7, timeout=120 if not big else 600)
            for l in r.lines:
                if l.startswith("GEN "):
                    try:
                        gen.append(parse_gen(l))
                    except ValueError:
                        pass
            if len(gen) < 5:    # recorded, not a failure: the targeted and echo scripts do not depend on the simulated ones
                c.extra["simulation_yielded_no_scripts_under_load"] = True
        gen = gen[:want]
        c.tlc_runs.append({"run": "GenInteractive -simulate", "scripts": len(gen), "wall_s": round(r.wall, 1)})
        echo = echo_scripts(rnd, work)
        c.extra["sessions_answering_with_the_builders_own_output"] = len(echo)
        items = targeted_scripts(rnd) + echo + [{"bver": g["bver"], "all": g["all"], "no_colors": rnd.random() < 0.5, "num": rnd.choice(["int", "float"]), "script": [esc(a) for a in g["script"]]} for g in gen]
        for k, it in enumerate(items):          # a third of the sessions write to a stream that can only represent ASCII / Latin-1
            if k % 3 == 1:
                it["encoding"] = "ascii" if k % 2 else "latin-1"
        sess = record_events(items, work, name="sess", script="interactive.py")
        acc, rej = validate(c, sess, work, False, "sessions")
        for t, (at, info) in sorted(rej.items()):
            if t in acc:
                continue
            s = sess[t - 1]
            ev = s["events"][at - 1] if at - 1 < len(s["events"]) else {"ev": "end-of-trace"}
            # identify narrowly: version, metric under question, the offending answer
            mm = re.search(r"cur=(\w*)", info)
            ans = ev.get("answer", ev.get("value", ev.get("exc", "")))
            key = "C16|%s|%s|%s|%s" % (s["bver"], ev.get("ev"), ev.get("prompt", "").split(":")[0], ans if ev.get("ev") != "Return" else "return-value")
            c.violation(key, "session rejected at event %d (%s): spec state %s; script=%s" % (at, json.dumps(ev), info, json.dumps(items[t - 1]["script"])[:300]),
                        {"session": s, "item": items[t - 1], "event_index": at})
        # beyond the property: the exact text shown before every read (header, hint lines with or without colours, prompts) and the
        # asking order, predicted by InteractiveText.tla from the display tables; notes, never violations
        acc_t, rej_t = validate(c, sess, work, False, "sessions-exact-text", cfg="TraceInteractive_TEXT.cfg")
        only_text = sorted(t_ for t_ in set(rej_t) - acc_t if t_ in acc)
        c.extra["beyond_property_sessions_with_text_mismatch"] = len(only_text)
        for t_ in only_text[:3]:
            s_ = sess[t_ - 1]
            at = rej_t[t_][0]
            print("NOTE (beyond C16, not a violation): session text differs from InteractiveText.tla at event %d: %s" %
                  (at, json.dumps(s_["events"][at - 1] if at - 1 < len(s_["events"]) else {})[:300]))
        c.traces = len(sess)
        c.evaluations = sum(len(s["events"]) for s in sess)
        kinds = {}
        for s in sess:
            k = s["events"][-1]["ev"] if s["events"] else "none"
            kinds[k] = kinds.get(k, 0) + 1
        c.extra["session_outcomes"] = kinds
        values_selected = set()
        for s in sess:
            if s["events"] and s["events"][-1]["ev"] == "Return":
                body = s["events"][-1]["value"]
                for f in body.split("/"):
                    if f.count(":") == 1 and not f.startswith("CVSS"):
                        values_selected.add((s["bver"], f))
        total_values = sum(len(corpus.VALS[v][m]) for b, v in BVER.items() for m in corpus.ORDER[v])
        c.extra["distinct_metric_values_selected"] = len(values_selected)
        c.extra["metric_values_total"] = total_values
        c.nontrivial = len(set(json.dumps(i, sort_keys=True) for i in items))
        c.rule = ("answer scripts: targeted (every metric x every legal value x {exact, lower, capitalised, padded}; 1-3 rejected answers "
                  "before each accept; empty answers everywhere; end of input at every prompt index) and TLC-simulated scripts from "
                  "GenInteractive.tla; every input() call and the outcome are one trace event, validated step by step against "
                  "Interactive.tla (TraceInteractive.tla)")
        c.samples = [{"bver": s["bver"], "all": s["all"], "events": s["events"][:3] + s["events"][-1:]} for s in sess[::max(1, len(sess) // 4)]][:4]
        c.assumptions = ["TLC; prompt decoding by the metric names of MetricName2/3/4; blanks around an answer are not regulated by the property (both outcomes accepted)"]
        return c.finish()
    finally:
        rm(work)
