# -*- coding: utf-8 -*-
"""C18 (objects are immutable values with pure accessors) and C19 (no hidden state / ambient
dependence): System.tla model-checked; TLC-generated accessor histories, API histories and thread
schedules replayed into the real code; recorded digests judged by TraceSystem.tla."""
import os, json, random, re
from common import Check, run_tlc, tlc_or_die, scratch_dir, rm, MachineryError, esc, parse_gen, repo_env
import corpus
from props.strings import record_events, judge

ROUNDINGS = ["ROUND_CEILING", "ROUND_DOWN", "ROUND_FLOOR", "ROUND_HALF_DOWN", "ROUND_HALF_EVEN", "ROUND_HALF_UP", "ROUND_UP", "ROUND_05UP"]


def gen(c, mode, name, **kw):
    r = tlc_or_die("GenSystem", cfg="GenSystem_%s.cfg" % mode, workers=1, timeout=1800, **kw)
    c.add_tlc(name, r)
    return [parse_gen(l)["h"] for l in r.lines if l.startswith("GEN ")]


def references(steplists, work):
    """digest of the last step of each step list, each run in a fresh interpreter process"""
    uniq = list(dict.fromkeys(json.dumps(s) for s in steplists))
    items = [{"kind": "reference", "steps": [json.loads(u) for u in uniq[k::16]]} for k in range(16) if uniq[k::16]]
    ev = record_events(items, work, name="ref", script="system.py", shards=16)
    out = {}
    for it, e in zip(items, ev):
        for sl, st in zip(it["steps"], e["steps"]):
            out[json.dumps(sl)] = (st["res"], st["exc"])
    return out


def vec_pool(rnd, n):
    """random vectors, every third one taken from the coverage-representative set (rarely executed branches of the working tree)"""
    pool = []
    cov = corpus.coverage_vectors()
    for k in range(n):
        if k % 3 == 2 and cov:
            pool.append(cov[rnd.randrange(len(cov))])
            continue
        ver = rnd.choice("234")
        pool.append((ver, corpus.random_vector(rnd, ver)[3]))
    return pool


def shared_preempt_items(rnd, big):
    """one object shared by two threads: every accessor of it (hash, ==, set lookup included) in both, the second running to
    completion at every line boundary of the first - the object's first accessor call included (drivers/system.py preempt)"""
    out = []
    for ver in "234":
        pool = [v[3] for v in corpus.covering_vectors(rnd, ver)]
        for _ in range(1 if not big else 4):
            out.append({"kind": "preempt", "shared": True, "a": [[ver, esc(rnd.choice(pool))]], "b": [[ver, "-"]]})
        out.append({"kind": "preempt", "shared": True, "a": [[ver, esc(corpus.random_vector(rnd, ver)[3])]], "b": [[ver, "-"]]})
        # ... and one user broken off at every line boundary by an exception from outside (Ctrl-C, a timeout), the object used again afterwards
        out.append({"kind": "preempt", "shared": True, "abort": True, "a": [[ver, esc(rnd.choice(pool))]], "b": [[ver, "-"]]})
    return out


def poison_items(rnd, big):
    """every input first under a caller's decimal context of a few digits (not judged), then under the ordinary one (judged against a
    recording without the first pass): all v2 / v3 base vectors, v3 and v2 environmental samples, the v4 lookup cover, RH strings, texts"""
    import itertools
    inputs = []
    for combo in itertools.product(*[corpus.VALS["2"][m] for m in corpus.MAND["2"]]):
        inputs.append(["2", "/".join("%s:%s" % mv for mv in zip(corpus.MAND["2"], combo))])
    for minor in (0, 1):
        for combo in itertools.product(*[corpus.VALS["3"][m] for m in corpus.MAND["3"]]):
            inputs.append(["3", "CVSS:3.%d/" % minor + "/".join("%s:%s" % mv for mv in zip(corpus.MAND["3"], combo))])
    for ver in "234":
        for _ in range(400 if not big else 3000):
            inputs.append([ver, corpus.random_vector(rnd, ver, p_opt=rnd.choice([0.3, 0.9]))[3]])
        inputs += [[v_, s_] for v_, s_ in corpus.coverage_vectors() if v_ == ver]
    for v_, s_ in vec_pool(rnd, 30):
        inputs.append(["rh" + v_, "7.5/" + s_])
        inputs.append(["text", "see %s and (%s)" % (s_, s_)])
    inputs = [[v_, esc(s_)] for v_, s_ in inputs]
    settings = [(p_, "ROUND_HALF_EVEN", False) for p_ in ((1, 2, 3, 4, 5, 6, 7, 9, 12, 20) if not big else range(1, 28))]
    settings += [(6, rd, False) for rd in ROUNDINGS if rd != "ROUND_HALF_EVEN"] + [(28, "ROUND_HALF_EVEN", True), (6, "ROUND_HALF_EVEN", True)]
    items = [{"kind": "poison", "prec": 0, "inputs": inputs}]
    items += [{"kind": "poison", "prec": p_, "rounding": rd, "trap": tr, "inputs": inputs} for p_, rd, tr in settings]
    return items


def key_of(e, what):
    return "%s|%s" % (e.get("prop", "C18"), what.split(":")[0])


def run(prop, tier, seed):
    c = Check(prop, tier, seed)
    rnd = random.Random(seed * 1000003 + int(prop[1:]))
    work = scratch_dir(prop)
    big = tier == "thorough"
    try:
        r = tlc_or_die("MC_System", cfg="MC_System_ok.cfg", workers=8, timeout=1800)
        c.add_tlc("MC_System: 2 threads x pipeline x accessor calls, all interleavings; 5 properties", r)
        events = []
        if prop == "C18":
            hs = gen(c, "accessors", "GenSystem accessors: every accessor sequence of length <= 3 (15 accessor variants)")
            if len(hs) != 15 + 15 ** 2 + 15 ** 3:
                raise MachineryError("expected 3615 accessor histories, got %d" % len(hs))
            items = []
            pool = {"2": [], "3": [], "4": []}
            for ver in "234":
                pool[ver] = [v[3] for v in corpus.covering_vectors(rnd, ver)] + [s for v_, s in corpus.coverage_vectors() if v_ == ver] * 3
            for ver in "234":
                for rep in range(1 if not big else 4):
                    for h in hs:
                        items.append({"kind": "accessors", "ver": ver, "s": esc(rnd.choice(pool[ver])), "calls": h})
            # longer random histories (TLC -simulate is not needed to vary a flat alphabet: seeded here)
            acc = sorted(set(a for h in hs for a in h))
            for _ in range(300 if not big else 5000):
                ver = rnd.choice("234")
                items.append({"kind": "accessors", "ver": ver, "s": esc(rnd.choice(pool[ver])), "calls": [rnd.choice(acc) for _ in range(12)]})
            ev = record_events(items, work, name="acc", script="system.py")
            # an immutable value can be read by any number of threads: single-preemption exploration of two users of one object
            sh = shared_preempt_items(rnd, big)
            sev = record_events(sh, work, name="shr", script="system.py", shards=len(sh))
            c.extra["shared_object_preemption_points"] = sum(e.get("points", 0) for e in sev)
            if c.extra["shared_object_preemption_points"] < 50 * len(sh):
                raise MachineryError("line tracer saw only %d preemption points" % c.extra["shared_object_preemption_points"])
            for e in sev:
                for st in e["steps"]:
                    st["ref"], st["refexc"] = st.pop("ref_local")
            ev += sev
            for e in ev:
                e.pop("item", None)
                e["prop"] = "C18"
            judge(c, prop, ev, work, "accessor-histories", module="TraceSystem", cfg="TraceSystem.cfg", extra_states=0, keyfn=key_of)
            c.evaluations = sum(len(e["steps"]) for e in ev)
            c.nontrivial = len(ev)
            c.extra["accessor_variants"] = acc
            c.rule = ("accessor histories: all 3 615 sequences of length <= 3 over 15 accessor variants (incl. the four as_json option sets, the public intermediate quantities and "
                      "mutation of returned dictionaries) generated by TLC from System.tla's Call action, per version on covering vectors, plus "
                      "seeded histories of length 12; after every call the driver records the digest of the result, of the object's complete "
                      "state (vars(obj), deep) and of the same call on a pristine twin; judged by TraceSystem.tla")
            c.samples = [{"steps": [[s["label"], s["res"], s["ref"]] for s in e["steps"][:4]]} for e in ev[::max(1, len(ev) // 3)]][:3]
        else:
            # ---- histories ------------------------------------------------------------------
            hs = gen(c, "history", "GenSystem history: every API history of <= 4 calls (3 input kinds, 2 entry points, copies, 7 accessors, <= 3 objects)")
            if not big:
                hs = rnd.sample(hs, 700)
            items = []
            for h in hs:
                ver = rnd.choice("234")
                _, minor, g, s = corpus.random_vector(rnd, ver)
                if ver == "3" and rnd.random() < 0.5:
                    twin = corpus.spell(ver, 1 - minor, g)          # 3.0 / 3.1 twins share their body
                else:
                    # a near twin: the same assignment with one metric changed, added or removed (what a memo keyed by part of the
                    # input confuses with the first vector)
                    g_t = dict(g)
                    m_t = rnd.choice(corpus.ORDER[ver])
                    others_ = [v_ for v_ in corpus.VALS[ver][m_t] if v_ != g_t.get(m_t)]
                    if m_t in g_t and m_t not in corpus.MAND[ver] and rnd.random() < 0.3:
                        del g_t[m_t]
                    else:
                        g_t[m_t] = rnd.choice(others_)
                    twin = corpus.spell(ver, minor, g_t)
                covv = [s_ for v_, s_ in corpus.coverage_vectors() if v_ == ver]
                if covv and rnd.random() < 0.3:           # a coverage-representative vector as the first input of the history
                    s = rnd.choice(covv)
                bad = corpus.mutate(rnd, s, ver)
                conc = {1: ["new", ver, esc(s)], 2: ["new", ver, esc(twin)], 3: ["new", ver, esc(bad)]}
                steps = []
                for st in h:
                    if st[0] == "new":
                        stp = list(conc[st[1]])
                        r_ = rnd.random()
                        if r_ < 0.15:
                            stp = ["text", esc("see " + corpus_unesc(stp[2]) + " and " + s)]
                        elif r_ < 0.3:
                            stp = ["fromrh", ver, esc("7.5/" + corpus_unesc(stp[2]))]
                        steps.append(stp)
                    elif st[0] == "copy":
                        steps.append(["copy", st[1] - 1, rnd.randrange(4)])
                    elif st[0] == "entry":
                        ever = rnd.choice(["2", "3.0", "3.1", "4.0"])
                        v_ = ever[0]
                        allm = rnd.random() < 0.5
                        ms = corpus.ORDER[v_] if allm else corpus.MAND[v_]
                        answers = [esc(rnd.choice(corpus.VALS[v_][m])) for m in ms][:rnd.choice([len(ms), len(ms), rnd.randrange(len(ms) + 1)])]   # sometimes cut short: EOF
                        if st[1] == "ask":
                            steps.append(["ask", ever, allm, answers])
                        elif rnd.random() < 0.5:
                            steps.append(["cli", [esc(a) for a in ["-v", s] + rnd.choice([[], ["-j"], ["-a"], ["-n"], ["-%s" % ver]])], False, []])
                        else:
                            steps.append(["cli", [esc(a) for a in ["-%s" % v_] + (["-a"] if allm else []) + rnd.choice([[], ["-j"], ["-n"]])], False, answers])
                    else:
                        steps.append(["call", st[1] - 1, st[2]])
                if len(items) % 4 == 1:
                    # a call by a caller that works under a decimal context of a few digits is part of the history too (not judged itself)
                    inner = rnd.choice([conc[1], conc[2], ["fromrh", ver, esc("7.5/" + s)], ["text", esc("see " + s)]])
                    steps.insert(rnd.randrange(len(steps)), ["lowprec", rnd.choice([1, 3, 6, 6, 9, 15]), rnd.choice(ROUNDINGS), inner, rnd.random() < 0.2])
                items.append({"kind": "history", "steps": steps, "handling": len(items) % 3 == 2})
            # ---- every metric once as the *only* difference between two consecutive inputs, both orders (a memo keyed by part of
            #      the input forgets exactly one of them) -------------------------------------------------------------------------
            for ver in "234":
                for m_t in corpus.ORDER[ver]:
                    _, minor, g, s = corpus.random_vector(rnd, ver, p_opt=rnd.choice([0.1, 0.5]))
                    for v_ in corpus.VALS[ver][m_t]:          # every other value of that metric (one of them is bound to change a score)
                        if v_ == g.get(m_t) or (m_t in corpus.MAND[ver] and v_ == corpus.ND[ver]):
                            continue
                        g_t = dict(g)
                        g_t[m_t] = v_
                        s_t = corpus.spell(ver, minor, g_t)
                        a_, b_ = (s, s_t) if rnd.random() < 0.5 else (s_t, s)
                        items.append({"kind": "history", "steps": [["new", ver, esc(a_)], ["new", ver, esc(b_)], ["call", 1, "scores"], ["call", 0, "scores"]], "handling": False})
            # ---- configurations: hash seeds and decimal contexts ---------------------------------
            probe = [["new", v, esc(s)] for v, s in vec_pool(rnd, 25)] + [["new", v, esc(s)] for v, s in corpus.coverage_vectors()] + [["text", esc("x " + s + " y")] for v, s in vec_pool(rnd, 5)]
            for _ in range(8):            # texts that contain one vector in two or three spellings (which one is kept must not depend on anything ambient)
                ver = rnd.choice("23")
                _, minor, g, s = corpus.random_vector(rnd, ver)
                g2 = dict(g)
                for m in corpus.ORDER[ver]:
                    if m not in g2 and m not in corpus.MAND[ver] and rnd.random() < 0.4:
                        g2[m] = corpus.ND[ver]
                o = list(g)
                rnd.shuffle(o)
                probe.append(["text", esc("a %s b %s c %s." % (s, corpus.spell(ver, minor, g2), corpus.spell(ver, minor, g, o)))])
            probe += [["call", k, a] for k in range(5) for a in ("scores", "json_sm", "rh", "hash")]
            # the entry points and the Red Hat notation under every configuration: builder for every version and mode, the calculator,
            # score texts of every length around the true score (whatever the library decides for them, it decides it everywhere)
            for ever in ("2", "3.0", "3.1", "4.0"):
                for allm in (False, True):
                    ms = corpus.ORDER[ever[0]] if allm else corpus.MAND[ever[0]]
                    probe.append(["ask", ever, allm, [esc(rnd.choice(corpus.VALS[ever[0]][m])) for m in ms]])
            for v_, s_ in vec_pool(rnd, 3):
                probe.append(["cli", [esc(a) for a in ["-%s" % v_, "-v", s_, "-j"]], False, []])
            rh_probe_vectors = vec_pool(rnd, 6)
            rh_scores = record_events([{"op": "construct", "ver": v_, "s": esc(s_), "json": False} for v_, s_ in rh_probe_vectors], work, name="rhs")
            for (v_, s_), e_ in zip(rh_probe_vectors, rh_scores):
                sc = (e_.get("out") or {}).get("scores") or [0]
                t_ = "%d.%d" % (sc[0] // 10, sc[0] % 10)
                for lit in (t_, t_ + "0", t_ + "0" * 16 + "1", t_ + "0" * 27 + "1", t_ + "0" * 40 + "1", t_ + "0" * 27 + "9", "0" * 30 + t_,
                            t_[:-1] + str((int(t_[-1]) + 9) % 10) + "9" * 30, t_ + "e0", t_.replace(".", "") + "e-1", " " + t_, t_ + "_0"):
                    probe.append(["fromrh", v_, esc(lit + "/" + s_)])
            cfg_items = [{"kind": "config", "prec": p, "rounding": rd, "steps": probe} for p in (28, 29, 50, 100) for rd in ROUNDINGS]
            # ---- schedules ---------------------------------------------------------------------
            sch = gen(c, "schedules", "GenSystem schedules: every interleaving of two 6-step construction pipelines")
            if not big:
                sch = rnd.sample(sch, 250)
            sched_items = []
            for h in sch:
                ver = rnd.choice("234")
                _, minor, g, s = corpus.random_vector(rnd, ver)
                other = corpus.spell(ver, 1 - minor, g) if ver == "3" and rnd.random() < 0.5 else corpus.random_vector(rnd, ver)[3]
                sched_items.append({"kind": "schedule", "inputs": [[ver, esc(s)], [ver, esc(other)]], "schedule": h})
            def long_text():
                return " ".join(rnd.choice(["see", "and", "(", ")", "score 7.5", s_]) for _ in range(40) for s_ in [corpus.random_vector(rnd, rnd.choice("23"))[3]])
            stress_items = [{"kind": "stress", "inputs": [[v, esc(s)] for v, s in vec_pool(rnd, 10)] + [["3", "bad"]] + [["text", esc(long_text())] for _ in range(3)]
                             + [["rh" + v, esc("7.5/" + s)] for v, s in vec_pool(rnd, 2)], "threads": 16, "rounds": 150 if not big else 1500, "seed": k}
                            for k in range(4 if not big else 16)]
            # ---- stack depth: the probe at every small distance from the recursion limit ---------------------
            depth_items = [{"kind": "depth", "steps": [st], "margins": list(range(0, 48)) + list(range(48, 140, 1 if big else 4))} for st in ([s_ for s_ in probe if s_[0] == "new"][:(6 if not big else 25)] + [s_ for s_ in probe if s_[0] == "text"])]
            import time as _t
            _t0 = _t.time()
            ev = record_events(items + sched_items + stress_items + depth_items, work, name="sys", script="system.py")
            # ---- preemption at every line of a *cold* first call: one fresh process per pair (shards = items) ------------------
            pre_items = []
            for va in "234":
                for vb in ("234" if big else va):
                    a_, b_ = corpus.random_vector(rnd, va)[3], corpus.random_vector(rnd, vb)[3]
                    pre_items.append({"kind": "preempt", "a": [[va, esc(a_)]], "b": [[vb, esc(b_)]]})
                    pre_items.append({"kind": "preempt", "a": [[va, esc(a_)]], "b": [[va, esc(a_)]]})          # the same input on both sides
            t_ = "see %s and %s (%s)." % (corpus.random_vector(rnd, "2")[3], corpus.random_vector(rnd, "3")[3], corpus.random_vector(rnd, "3")[3])
            pre_items.append({"kind": "preempt", "a": [["text", esc(t_)]], "b": [["text", esc(t_)]]})
            pre_items += shared_preempt_items(rnd, big)
            # a call broken off at every line boundary by an exception from outside, the same input offered again afterwards
            for va in "234":
                pre_items.append({"kind": "preempt", "abort": True, "a": [[va, esc(corpus.random_vector(rnd, va)[3])]], "b": [[va, "-"]]})
                pre_items[-1]["b"] = pre_items[-1]["a"]
            pre_items.append({"kind": "preempt", "abort": True, "a": [["text", esc(t_)]], "b": [["text", esc(t_)]]})
            pre_items.append({"kind": "preempt", "a": [["text", esc(t_)]], "b": [["2", esc(corpus.random_vector(rnd, "2")[3])]]})
            pev = record_events(pre_items, work, name="pre", script="system.py", shards=len(pre_items))
            c.extra["preemption_points_explored"] = sum(e.get("points", 0) for e in pev)
            if c.extra["preemption_points_explored"] < 50 * len(pre_items):
                raise MachineryError("line tracer saw only %d preemption points" % c.extra["preemption_points_explored"])
            ev += pev
            # ---- histories that start under a caller's own decimal context (few digits, traps) ---------------------------------
            pit = poison_items(rnd, big)
            pz = record_events(pit, work, name="poi", script="system.py", shards=len(pit))
            clean = dict((st["label"], (st["res"], st["exc"])) for st in pz[0]["steps"])
            for e_ in pz:
                for st in e_["steps"]:
                    st["ref_local"] = list(clean[st["label"]])
            c.extra["inputs_offered_again_after_a_low_precision_caller"] = sum(len(e_["steps"]) for e_ in pz[1:])
            ev += pz[1:]
            c.extra["t_record_s"] = round(_t.time() - _t0, 1)
            # configured runs: one driver process per PYTHONHASHSEED
            cev = []
            for hs_ in (["0", "1", "2", "3", "42", "1000", "4294967295", "random"] if not big else [str(k) for k in range(24)] + ["random"]):
                part = cfg_items if hs_ in ("0", "random") else rnd.sample(cfg_items, 4)
                cev += record_events(part, work, name="cfg", script="system.py", env={"PYTHONHASHSEED": hs_}, shards=16)
            # interpreter optimisation levels (assert statements and docstrings removed) are ambient settings too
            for opt in ("1", "2"):
                cev += record_events(cfg_items[:2] + items[:60], work, name="opt", script="system.py", env={"PYTHONOPTIMIZE": opt}, shards=16)
            ev += cev
            # ---- references from fresh interpreters ---------------------------------------------
            need = []
            for e in ev:
                it = e["item"]
                if it["kind"] == "depth":
                    e["_need"] = [[it["steps"][0]] for _ in e["steps"]]
                    need += e["_need"]
                elif it["kind"] in ("history", "config"):
                    e["_need"] = []
                    for st, rec in zip(it["steps"], e["steps"]):
                        if st[0] == "copy":
                            e["_need"].append(None if rec["res"] == "no-object" else [["new"] + rec["label"].split(":", 2)[1:]])
                        elif st[0] in ("new", "fromrh", "text", "ask", "cli"):
                            e["_need"].append([st])
                        elif rec["on"]:
                            e["_need"].append([rec["on"], ["call", 0, st[2]]])
                        else:
                            e["_need"].append(None)
                    need += e["_need"]
                else:
                    e["_need"] = []
                    for st in e["steps"]:
                        if "ref_local" in st:          # the reference was taken in the same process (an object nobody else touches)
                            e["_need"].append(None)
                            continue
                        op, ver, s = st["label"].split(":", 2)
                        nd_ = [["text", s]] if op == "text" else [[op, ver, s]]
                        e["_need"].append(nd_)
                        need.append(nd_)
            c.extra["t_configs_s"] = round(_t.time() - _t0, 1)
            ref = references([n for n in need if n is not None], work)
            c.extra["t_refs_s"] = round(_t.time() - _t0, 1)
            c.extra["n_refs"] = len(set(json.dumps(n) for n in need if n is not None))
            for e in ev:
                for st, nd in zip(e["steps"], e.pop("_need")):
                    if "ref_local" in st:
                        st["ref"], st["refexc"] = st.pop("ref_local")
                    elif nd is None:
                        st["ref"], st["refexc"] = st["res"], st["exc"]
                    else:
                        st["ref"], st["refexc"] = ref[json.dumps(nd)]
                        if e["kind"] == "depth" and st["exc"] in ("RecursionError", "RuntimeError", "MemoryError"):
                            st["ref"], st["refexc"] = st["res"], st["exc"]          # failing loudly for lack of stack is allowed
                if e["kind"] == "config" and e["ctx_after"] != [e["item"]["prec"], e["item"]["rounding"]]:
                    c.violation("C19|decimal-context-changed", "decimal context after the calls: %s" % e["ctx_after"], {"item": e["item"]})
                if e["kind"] == "schedule":
                    # the forced schedules gate the two constructions at the entries of the library's own methods; a library that is
                    # organised differently simply offers fewer gates (recorded; the line-level preemption exploration does not depend on it)
                    c.extra["schedules_with_fewer_than_3_gates"] = c.extra.get("schedules_with_fewer_than_3_gates", 0) + (1 if min(st.get("gated", 0) for st in e["steps"]) < 3 else 0)
                e.pop("item", None)
                e["prop"] = "C19"
            judge(c, prop, ev, work, "histories+configs+schedules", module="TraceSystem", cfg="TraceSystem.cfg", extra_states=0, keyfn=key_of)
            c.evaluations = sum(len(e["steps"]) for e in ev)
            c.nontrivial = len(ev)
            kinds = {}
            for e in ev:
                kinds[e["kind"]] = kinds.get(e["kind"], 0) + 1
            c.extra["histories_by_kind"] = kinds
            c.extra["stress_constructions"] = sum(e.get("constructions", 0) for e in ev)
            c.rule = ("API histories generated by TLC from System.tla (constructions valid / 3.0-3.1 twin / failing, RH and text variants, accessor "
                      "calls, interactive-builder sessions and calculator main() runs with scripted terminals) replayed in one process; the same probe under 8 PYTHONHASHSEEDs and 32 decimal contexts (prec 28-100 x 8 rounding "
                      "modes); TLC-enumerated interleavings of two construction pipelines forced with a settrace stepper at method boundaries; "
                      "16-thread free-running stress; every result is compared with the same call in a fresh interpreter process, every step "
                      "with the digest of all cvss.* module globals + decimal context + sys.path + warning filters and with captured "
                      "stdout/stderr; judged by TraceSystem.tla")
            c.samples = [{"kind": e["kind"], "steps": [[s["label"][:80], s["res"], s["ref"]] for s in e["steps"][:3]]} for e in ev[::max(1, len(ev) // 4)]][:4]
        c.assumptions = ["TLC; digests (sha1 of a canonical JSON rendering) stand for the values; thread schedules are forced at pipeline-method granularity, not byte-code granularity"]
        return c.finish()
    finally:
        rm(work)


def corpus_unesc(s):
    from common import unesc
    return unesc(s)
