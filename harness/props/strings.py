# -*- coding: utf-8 -*-
"""C04, C07, C08, C12, C15: string-level events judged by TraceEvents.tla."""
import os, json, random, re
from common import Check, tlc_or_die, run_driver, scratch_dir, rm, MachineryError, esc, NCPU
import corpus


def record_events(items, work, name="ev", script="events.py", py=None, env=None, shards=None):
    """Run the items through the real API in parallel shards (order preserved)."""
    n = shards or max(1, min(NCPU, len(items) // 50 + 1))
    n = max(1, min(n, len(items)))
    # contiguous blocks: neighbouring items (e.g. a vector and its re-spelled twin) run in the same interpreter process
    size = (len(items) + n - 1) // n
    shards = [items[k * size:(k + 1) * size] for k in range(n)]
    shards = [sh for sh in shards if sh]
    # every other shard is recorded after a warm-up history (all entry points and APIs exercised once in that process)
    jobs = [{"out": os.path.join(work, "%s.%d.out" % (name, k)), "items": sh, "warm": k % 2 == 1} for k, sh in enumerate(shards)]
    run_driver(script, jobs, work, name=name, py=py, env=env)
    merged = []
    for j in jobs:
        merged += json.load(open(j["out"]))
        os.remove(j["out"])
    if len(merged) != len(items):
        raise MachineryError("driver %s returned %d results for %d items" % (script, len(merged), len(items)))
    return merged


CHUNK = int(os.environ.get("VERIF_CHUNK", "60000"))          # events per TLC run: a trace file of hundreds of MB makes TLC's JSON reader the bottleneck


def judge(c, prop, events, work, name, cfg=None, module="TraceEvents", keyfn=None, extra_states=1):
    # whole-trace clauses (C07's metric-order acyclicity) need the trace in one piece; everything else is judged event by event
    if len(events) > CHUNK and not (module == "TraceEvents" and prop == "C07"):
        nfail = 0
        for k in range(0, len(events), CHUNK):
            nfail += judge_one(c, prop, events[k:k + CHUNK], work, "%s-%d" % (name, k // CHUNK), cfg, module, keyfn, extra_states, offset=k)
        return nfail
    return judge_one(c, prop, events, work, name, cfg, module, keyfn, extra_states)


def judge_one(c, prop, events, work, name, cfg=None, module="TraceEvents", keyfn=None, extra_states=1, offset=0):
    # an accessor that raised on an accepted vector: nothing of what the property says about that vector's outputs can hold
    for e in events:
        out = e.get("out") if isinstance(e, dict) else None
        if isinstance(out, dict) and out.get("cls") == "accessor-raised":
            c.violation("%s|accessor-raised|%s" % (prop, out["e"]["exc"]), "an accessor raised %s (%s) for the accepted vector %s" % (out["e"]["exc"], out["e"].get("msg", "")[:120], e.get("s", "")[:200]),
                        {"event": e, "clause": "accessor-raised"})
    p = os.path.join(work, name + ".trace.json")
    with open(p, "w") as fh:
        json.dump(events, fh, separators=(",", ":"))
    r = tlc_or_die(module, cfg=cfg or "%s_%s.cfg" % (module, prop), env={"TRACE_FILE": p, "NEED_V3": "1" if module == "TraceOracle" else "0",
                                                                        "NEED_V2": "1" if module == "TraceOracle" else "0"}, timeout=7200)
    c.add_tlc("%s %s (%s)" % (module, prop, name), r)
    if r.distinct != 2 * (len(events) + extra_states):
        raise MachineryError("TLC judged %d states for %d events" % (r.distinct, len(events)))
    nfail = 0
    for l in r.lines:
        if l.startswith("NOTE "):
            m = re.match(r"NOTE (\d+) (.*)", l)
            c.notes.append("NOTE %d %s" % (int(m.group(1)) + offset, m.group(2)) if m else l)
        if l.startswith("FAIL "):
            m = re.match(r"FAIL (\d+) (.*)", l)
            idx, what = int(m.group(1)), m.group(2)
            e = events[idx - 1] if idx >= 1 else {"op": "whole-trace"}
            key = keyfn(e, what) if keyfn else "%s|%s|%s|v%s" % (prop, what, e.get("op"), e.get("ver", "-"))
            brief = dict((k, e[k]) for k in ("op", "ver", "s", "text") if k in e)
            c.violation(key, "%s on %s" % (what, json.dumps(brief)[:300]), {"event": e, "clause": what})
            nfail += 1
    os.remove(p)
    c.traces += len(events)
    return nfail


def valid_corpus(rnd, n_random, versions="234"):
    vs = []
    cov = corpus.coverage_vectors()          # reach every line-to-line transition of the working tree that the candidate set reaches
    for ver in versions:
        vs += corpus.covering_vectors(rnd, ver)
        vs += corpus.extremal_vectors(rnd, ver)
        vs += [(ver, (0 if s.startswith("CVSS:3.0") else 1) if ver == "3" else -1, None, s) for v_, s in cov if v_ == ver]
        if ver == "4":
            vs += [x[:4] for x in corpus.lookup_cover_v4(rnd)]          # TLC-generated: 4 vectors per row of the lookup table
        for _ in range(n_random):
            vs.append(corpus.random_vector(rnd, ver))
    return vs


def run(prop, tier, seed):
    c = Check(prop, tier, seed)
    rnd = random.Random(seed * 1000003 + int(prop[1:]))
    work = scratch_dir(prop)
    big = tier == "thorough"
    try:
        if prop == "C04":
            valid = [v[3] for v in valid_corpus(rnd, 1500 if not big else 20000)]
            strings = valid + corpus.near_misses(rnd, 7000 if not big else 120000) + corpus.arbitrary_text(rnd, 1500 if not big else 20000)
            # spec -> code: TLC enumerates the complete single-edit neighbourhood (delete / replace / insert over a 12-character
            # alphabet at every position) of this run's seed vectors, checks on it that the operational parser machine refines the
            # grammar, and emits every string for the replayer
            seeds = [corpus.random_vector(rnd, ver, p_opt=rnd.choice([0.0, 0.15]))[3] for ver in "234" for _ in range(1 if not big else 6)]
            # ... and of the grammar's own tokens (short strings without a separator: a prefix alone, with its slash, one field, prefix + field)
            seeds += ["", "CVSS:3.1", "CVSS:3.0", "CVSS:4.0", "CVSS:3.1/", "CVSS:4.0/", "AV:N", "CVSS:3.1/AV:N", "CVSS:4.0/AV:N", "AV:N/AC:L"]
            sf = os.path.join(work, "seeds.json")
            json.dump(seeds, open(sf, "w"))
            r = tlc_or_die("MC_Parser", env={"SEEDS_FILE": sf}, workers=8, timeout=3600)
            c.add_tlc("MC_Parser: machine outcome = Classify on every <= 1-edit neighbour of %d seed vectors x 3 constructors; strings emitted" % len(seeds), r)
            r2 = tlc_or_die("MC_Pipeline", workers=8, timeout=3600)
            c.add_tlc("MC_Pipeline: the constructor pipeline terminates, refines the grammar and carries the score functions' scores (bounded neighbourhood)", r2)
            from common import parse_gen
            neigh = [parse_gen(l)["s"] for l in r.lines if l.startswith("GEN ")]
            if len(neigh) < 1000:
                raise MachineryError("MC_Parser emitted only %d strings" % len(neigh))
            c.extra["strings_generated_by_tlc"] = len(neigh)
            strings = list(dict.fromkeys(strings + neigh))
            items = []
            for s in strings:
                for rep in range(3 if rnd.random() < 0.1 else 1):      # every tenth string is offered three times in a row to the same process
                    items += [{"op": "construct", "ver": ver, "s": esc(s), "json": False} for ver in "234"]
            ev = record_events(items, work)
            for e in ev:                      # keep the trace small: C04 needs the outcome class only
                if e["out"]["cls"] in ("ok", "accessor-raised"):          # accepted is accepted: what the accessors then do is not C04's question
                    e["out"] = {"cls": "ok", "minor": e["out"]["minor"]}
            judge(c, prop, ev, work, "construct")
            # beyond the property: exact error messages predicted by the machine (NOTE lines of the same TLC run; never violations)
            notes = c.notes
            if any("SPEC-INCONSISTENT" in n for n in notes):
                raise MachineryError("ParserMachine.tla does not refine Vector.tla on a recorded string: %s" % notes[0][:300])
            c.extra["beyond_property_error_message_mismatches"] = len(notes)
            for n in notes[:3]:
                print("NOTE (beyond C04, not a violation): exception text differs from ParserMachine.tla: %s" % n[:300])
            # beyond the property: step-level traces of the constructor pipeline (sys.settrace, nothing added to the repository)
            # validated action by action against Pipeline.tla; rejections are notes, never violations (a refactoring may rename steps)
            sub = strings[:: max(1, len(strings) // (1500 if not big else 20000))]
            pitems = [{"ver": ver, "s": esc(s)} for s in sub for ver in "234"]
            ptr = record_events(pitems, work, name="pipe", script="pipeline.py")
            pp = os.path.join(work, "pipeline.json")
            json.dump(ptr, open(pp, "w"), separators=(",", ":"))
            r = tlc_or_die("TracePipeline", cfg="TracePipeline.cfg", env={"TRACE_FILE": pp}, timeout=3600)
            c.add_tlc("TracePipeline: %d step-level constructor traces against Pipeline.tla" % len(ptr), r)
            acc = set(int(l.split()[1]) for l in r.lines if l.startswith("ACC "))
            rej = [l for l in r.lines if l.startswith("REJ ") and int(l.split()[1]) not in acc]
            c.extra["beyond_property_pipeline_traces"] = len(ptr)
            c.extra["beyond_property_pipeline_traces_rejected"] = len(set(l.split()[1] for l in rej))
            if len(acc) + len(set(l.split()[1] for l in rej)) != len(ptr):
                raise MachineryError("TracePipeline gave no verdict for some traces")
            for l in rej[:3]:
                t = ptr[int(l.split()[1]) - 1]
                print("NOTE (beyond C04, not a violation): constructor step trace rejected by Pipeline.tla: %s on CVSS%s(%s)" % (l, t["ver"], t["s"][:120]))
            os.remove(pp)
            c.evaluations = len(ev)
            classes = {}
            for e in ev:
                k = (e["ver"], e["out"]["cls"] if e["out"]["cls"] == "ok" else e["out"]["e"]["exc"])
                classes[k] = classes.get(k, 0) + 1
            c.extra["outcome_classes"] = dict(("v%s %s" % k, v) for k, v in sorted(classes.items()))
            need = set((v, x) for v in "234" for x in ("ok", "CVSS%sMalformedError" % v, "CVSS%sMandatoryError" % v))
            if not need <= set(classes):
                raise MachineryError("coverage gate: outcome classes never produced: %s" % sorted(need - set(classes)))
            c.nontrivial = len(strings)
            c.rule = ("distinct strings (valid vectors covering every metric/value of every version in random order, single- and "
                      "double-edit near misses, hypothesis-generated arbitrary text), each given to all three constructors; "
                      "outcome class judged by TLC against Parse() of Vector.tla")
            c.samples = [{"s": e["s"], "ver": e["ver"], "outcome": e["out"]["cls"] if e["out"]["cls"] == "ok" else e["out"]["e"]["exc"]} for e in ev[::max(1, len(ev) // 6)]][:8]
        elif prop in ("C07", "C08", "C15"):
            vs = valid_corpus(rnd, 1500 if not big else 30000, versions="23" if prop == "C15" else "234")
            if prop == "C15":
                # every base assignment of v2 and v3 (finite: 729 + 2 x 2 592) under a few shapes of the optional groups
                import itertools
                for ver in "23":
                    mand = corpus.MAND[ver]
                    opt = [m for m in corpus.ORDER[ver] if m not in mand]
                    for combo in itertools.product(*[corpus.VALS[ver][m] for m in mand]):
                        for minor, shape in [(mi, sh) for mi in ([0, 1] if ver == "3" else [-1]) for sh in ((0, 1, 2, 2, 2, 3) if ver == "2" else (rnd.randrange(4), 2))]:
                            g = dict(zip(mand, combo))
                            for m in opt:
                                # shapes: one or two optional metrics defined; a whole group defined; sparse random
                                if (shape == 0 and rnd.random() < 0.12) or (shape == 1 and m in opt[:3]) or (shape == 2 and m in opt[3:5]) or (shape == 3 and rnd.random() < 0.4):
                                    g[m] = rnd.choice([v for v in corpus.VALS[ver][m] if v != corpus.ND[ver]])
                            vs.append((ver, minor, g, corpus.spell(ver, minor, g)))
            items = [{"op": "construct", "ver": v[0], "s": esc(v[3]), "json": False} for v in vs]
            ev = record_events(items, work)
            nrej = sum(1 for e in ev if e["out"]["cls"] == "exc")
            c.extra["valid_vectors_rejected_by_the_library"] = nrej          # C04's business; this property speaks about accepted vectors
            if nrej > len(ev) // 2:
                raise MachineryError("the library rejects most of the generated valid vectors, e.g. %s (C04 decides whether that is a defect)" % [e["s"] for e in ev if e["out"]["cls"] == "exc"][0])
            ev = [e for e in ev if e["out"]["cls"] != "exc"]
            judge(c, prop, ev, work, "construct")
            c.evaluations = len(ev)
            if prop in ("C07", "C08"):
                # whatever else the library accepts (near misses: case variants, fault pairs, prefix variants, edits) is judged too:
                # whether it should have been accepted is C04's question, what is printed for it is this property's
                nm = corpus.near_misses(rnd, 1500 if not big else 25000)
                nitems = [{"op": "construct", "ver": ver, "s": esc(s), "json": False} for s in dict.fromkeys(nm) for ver in "234"]
                nev = [e for e in record_events(nitems, work, name="near") if e["out"]["cls"] == "ok"]
                judge(c, prop, nev, work, "accepted-near-misses")
                c.evaluations += len(nitems)
                c.extra["near_misses_offered"] = len(nitems)
                c.extra["near_misses_accepted_and_judged"] = len(nev)
            if prop == "C15":
                # the same events recorded under the interpreter's optimisation mode (assert statements removed): every fourth vector
                ev2 = record_events(items[::4], work, name="opt", env={"PYTHONOPTIMIZE": "1"})
                judge(c, prop, [e for e in ev2 if e["out"]["cls"] == "ok"], work, "construct-under-python-O")
                c.evaluations += len(ev2)
            if prop == "C07":
                pools = []
                for _ in range(40 if not big else 600):
                    pool = []
                    for ver in "234":
                        _, minor, g, s = corpus.random_vector(rnd, ver)
                        pool.append({"ver": ver, "s": esc(s)})
                        # twins: other spelling, ND-spelled, one metric changed, 3.0 vs 3.1
                        order = list(g)
                        rnd.shuffle(order)
                        pool.append({"ver": ver, "s": esc(corpus.spell(ver, minor, g, order))})
                        g2 = dict(g)
                        for m in corpus.ORDER[ver]:
                            if m not in g2 and rnd.random() < 0.5:
                                g2[m] = corpus.ND[ver]
                        pool.append({"ver": ver, "s": esc(corpus.spell(ver, minor, g2))})
                        # a second Not-Defined-spelled twin: as many explicit ND metrics as the first, but other ones where possible
                        absent = [m for m in corpus.ORDER[ver] if m not in g]
                        nnd = len(g2) - len(g)
                        if absent and nnd:
                            other = [m for m in absent if m not in g2] + [m for m in absent if m in g2]
                            g2b = dict(g)
                            for m in other[:nnd]:
                                g2b[m] = corpus.ND[ver]
                            pool.append({"ver": ver, "s": esc(corpus.spell(ver, minor, g2b))})
                        g3 = dict(g)
                        m = rnd.choice(list(g3))
                        g3[m] = rnd.choice(corpus.VALS[ver][m])
                        pool.append({"ver": ver, "s": esc(corpus.spell(ver, minor, g3))})
                        if ver == "3":
                            pool.append({"ver": ver, "s": esc(corpus.spell(ver, 1 - minor, g))})
                        # same text offered to another class
                        pool.append({"ver": rnd.choice([v for v in "234" if v != ver]), "s": esc(s)})
                    rnd.shuffle(pool)
                    pools.append({"op": "pool", "items": pool})
                pev = record_events(pools, work, name="pool")
                judge(c, prop, pev, work, "pools")
                c.evaluations += sum(len(p["items"]) ** 2 for p in pools)
                # exhaustive collision check: products over optional metrics in every spelling; every row's objects in one set / dict
                import tables
                etabs = tables.eq_tables(tier, seed)
                files, total = tables.record(etabs, work, seed, nsamples=1, eqsets=True)
                c.evaluations += total
                for path, nr, nent in files:
                    r = tlc_or_die("TraceScores", cfg="TraceScores_eqsets.cfg", env={"TRACE_FILE": path, "NEED_V3": "0", "NEED_V2": "0"}, timeout=7200)
                    c.add_tlc("TraceScores eqsets %s" % os.path.basename(path), r)
                    if r.distinct != 2 * nr:
                        raise MachineryError("TLC judged %d of %d rows" % (r.distinct // 2, nr))
                    c.traces += nr
                    for l in r.lines:
                        if l.startswith("FAIL "):
                            c.violation("C07|%s|v%s" % (" ".join(l.split()[2:4]), "?"), l, None)
                    os.remove(path)
                c.extra["objects_in_exhaustive_equality_sets"] = total
            if prop == "C08":
                # the interactive builder's return value: complete sessions, official pattern demanded
                from props import interactive16
                its = [i for i in interactive16.targeted_scripts(rnd)]
                its = [i for i in its if i["all"] and not i.get("abort")][::3] + [i for i in its if not i["all"] and not i.get("abort")][::7] + [i for i in its if i.get("abort")] + interactive16.echo_scripts(rnd, work)
                sess = record_events(its, work, name="sess", script="interactive.py")
                sess_done = [s_ for s_ in sess if s_["events"] and s_["events"][-1]["ev"] == "Return"]
                bver_map = {"2": ("2", -1), "3.0": ("3", 0), "3.1": ("3", 1), "4.0": ("4", -1)}
                bitems = [{"op": "construct", "ver": bver_map[s_["bver"]][0], "s": s_["events"][-1]["value"], "json": False} for s_ in sess_done]
                bobs = record_events(bitems, work, name="bret")
                bev = [{"op": "builder", "ver": bver_map[s_["bver"]][0], "minor": bver_map[s_["bver"]][1], "value": s_["events"][-1]["value"],
                        "bver": s_["bver"], "all": s_["all"], "lib_accepts": o["out"]["cls"] == "ok"} for s_, o in zip(sess_done, bobs)]
                judge(c, prop, bev, work, "builder-returns", keyfn=lambda e, what: "C08|%s|v%s" % (what, e.get("bver", e.get("ver"))))
                c.traces += len(sess_done)
                c.extra["builder_sessions_checked"] = len(sess_done)
            c.nontrivial = len(set(e["s"] for e in ev))
            c.rule = ("valid vectors: every metric x every value x every group-presence shape in random field order, plus seeded random "
                      "spellings; one construct event each with every emitted string re-offered to the library's own constructor"
                      + ("; pools of ~17 objects (twins in other spellings, ND-spelled, one metric changed, 3.0/3.1, other class) with the full ==/!=/hash/set matrix" if prop == "C07" else ""))
            c.samples = [{"s": e["s"], "clean": e["out"]["clean"], "rh": e["out"]["rh"], "tv": e["out"]["tv"], "ev": e["out"]["ev"]} for e in [x for x in ev if x["out"]["cls"] == "ok"][::max(1, len(ev) // 5)]][:6]
        elif prop == "C12":
            vs = valid_corpus(rnd, 800 if not big else 15000)
            items = [{"op": "construct", "ver": v[0], "s": esc(v[3]), "json": False} for v in vs]
            ev = record_events(items, work)
            judge(c, prop, ev, work, "construct")
            pool = [(e["ver"], corpus_unesc(e["s"]), e["out"]["scores"][0]) for e in ev if e["out"]["cls"] == "ok"]
            # all 101 canonical scores x 30 vectors per version, plus spelled variants
            rhs = []
            for ver in "234":
                for (v, s, b) in [p for p in pool if p[0] == ver][:30 if not big else 200]:
                    for t in range(101):
                        rhs.append((ver, "%d.%d/%s" % (t // 10, t % 10, s)))
            rhs += corpus.rh_structural(rnd, pool, 6 if not big else 60)
            rhs += corpus.rh_strings(rnd, 6000 if not big else 150000, pool)
            rhs = list(dict.fromkeys(rhs))
            ritems = [{"op": "fromrh", "ver": ver, "s": esc(s), "json": False} for ver, s in rhs]
            rev = record_events(ritems, work, name="rh")
            judge(c, prop, rev, work, "fromrh")
            c.evaluations = len(ev) + len(rev)
            classes = {}
            for e in rev:
                k = e["out"]["cls"] if e["out"]["cls"] == "ok" else e["out"]["e"]["exc"]
                classes[k] = classes.get(k, 0) + 1
            c.extra["fromrh_outcome_classes"] = classes
            for ver in "234":
                for x in ("CVSS%sRHMalformedError", "CVSS%sRHScoreDoesNotMatch", "CVSS%sMalformedError"):
                    if x % ver not in classes:
                        raise MachineryError("coverage gate: from_rh_vector outcome %s never produced" % (x % ver))
            c.nontrivial = len(rhs)
            c.rule = ("rh_vector()/round trip on valid vectors; from_rh_vector on all 101 canonical score texts x 30 vectors per version and on "
                      "seeded compositions of score spellings (padding, sign, exponent, underscores, inf/nan, malformed) with valid, "
                      "mutated and other-version vector parts; the expected class is computed by TLC (FromRhClass in Api.tla) from "
                      "the string and from the base score the library itself reports for the vector part")
            c.samples = [{"s": e["s"], "ver": e["ver"], "outcome": e["out"]["cls"] if e["out"]["cls"] == "ok" else e["out"]["e"]["exc"]} for e in rev[::max(1, len(rev) // 6)]][:8]
        c.assumptions = ["TLC; grammar and tables of spec/Vector.tla, Tables*.tla; strings travel in an injective ASCII escape (Chars.tla)"]
        return c.finish()
    finally:
        rm(work)


def corpus_unesc(s):
    from common import unesc
    return unesc(s)
