# -*- coding: utf-8 -*-
"""C01 / C02 / C03: scores equal the standards' equations (score tables, oracle mode)."""
import os, json, re
from common import Check, run_tlc, tlc_or_die, scratch_dir, rm, MachineryError
import tables


def official_trace(work, vers):
    D = os.path.join(os.path.dirname(os.path.dirname(os.path.dirname(os.path.abspath(__file__)))), "data", "official")
    from decimal import Decimal
    files = {"2": ["vectors_simple2", "vectors_cvsslib2", "vectors_calculator2"],
             "3": ["vectors_simple3", "vectors_simple31", "vectors_cvsslib3", "vectors_calculator3"],
             "4": ["vectors_simple4", "vectors_supplemental4", "vectors_security4", "vectors_threat4"]}
    out = []
    for ver in vers:
        for f in files[ver]:
            for line in open(os.path.join(D, f)):
                line = line.strip()
                if not line:
                    continue
                s, exp = line.split(" - ")
                exp = exp.strip("()").rstrip(",")
                out.append({"ver": ver, "s": s,
                            "exp": [(-1 if x.strip() == "None" else int(abs(Decimal(x.strip())) * 10)) for x in exp.split(",")]})
    p = os.path.join(work, "official.json")
    json.dump(out, open(p, "w"))
    return p, len(out)


def fails(r):
    return [l for l in r.lines if l.startswith("FAIL ")]


def run(prop, tier, seed):
    ver = {"C01": "3", "C02": "4", "C03": "2"}[prop]
    c = Check(prop, tier, seed)
    work = scratch_dir(prop)
    try:
        # 1. design level: the specification against the pinned official vectors
        p, n = official_trace(work, [ver])
        r = tlc_or_die("MC_Official", env={"TRACE_FILE": p})
        c.add_tlc("spec-vs-official-vectors", r)
        if fails(r) or r.distinct != n:
            raise MachineryError("specification disagrees with official vectors: %s" % fails(r)[:3])
        c.extra["official_vectors_agreeing_with_spec"] = n
        if ver == "4":
            r = tlc_or_die("MC_Score4", cfg="MC_Score4.cfg" if tier == "thorough" else "MC_Score4_quick.cfg", timeout=7200)
            c.add_tlc("MC_Score4 design invariants (row exists, dominated, gaps >= 0, distances within depth, tie margin, range, two formulations agree) over %s level tuples"
                      % ("all 15 116 544" if tier == "thorough" else "the first 300 000"), r)
        # 2. code -> spec: score tables
        if ver == "3":
            tabs = tables.v3_tables(tier, seed, 0) + tables.v3_tables(tier, seed, 1)
        elif ver == "4":
            tabs = tables.v4_tables(tier, seed)
        else:
            tabs = tables.v2_tables(tier, seed)
        if tier == "thorough" and ver == "4":
            tabs = [t for k, t in enumerate(tabs) if k != 4]        # the transposed layout (5th table) adds nothing in oracle mode
        files, total = tables.record(tabs, work, seed)
        c.evaluations += total
        rows_total, macros = 0, set()
        for path, nrows, nent in files:
            r = tlc_or_die("TraceScores", cfg="TraceScores_oracle.cfg", env={"TRACE_FILE": path, "NEED_V3": "1", "NEED_V2": "1"}, timeout=7200)
            c.add_tlc("TraceScores oracle %s" % os.path.basename(path), r)
            if r.distinct != 2 * nrows:
                raise MachineryError("TLC judged %d of %d rows" % (r.distinct, nrows))
            rows_total += nrows
            data = None
            for l in r.lines:
                if l.startswith("COV "):
                    macros.update(re.findall(r"\d{6}", l))
                if l.startswith("FAIL "):
                    m = re.match(r"FAIL (\d+) (.*)", l)
                    idx, what = int(m.group(1)), m.group(2)
                    if data is None:
                        data = json.load(open(path))
                    row = data["rows"][idx - 1]
                    vec = re.match(r"score (\S+)", what)
                    key = "%s|%s" % (prop, vec.group(1) if vec else what.split(" ")[0])
                    c.violation(key, what, {"table": data["tables"][row["t"] - 1], "row": {"t": row["t"], "o": row["o"]},
                                            "vector": vec.group(1) if vec else None})
            os.remove(path)
        # 3. the spelling sample: arbitrary spellings (field order; every optional metric absent / Not Defined / defined), stratified by
        #    the number of written optional metrics (every single optional metric x value alone, seeded pairs, seeded dense vectors),
        #    boundary spellings; string-level events judged by TraceOracle.tla
        import random
        from props import walks
        from props.strings import record_events, judge
        import corpus
        from common import esc
        rnd = random.Random(seed * 1000003 + int(prop[1:]))
        st = [x for x in walks.stratified_starts(rnd, 4 if tier == "quick" else 20, 600 if tier == "quick" else 20000, 3000 if tier == "quick" else 100000) if x["ver"] == ver]
        items = [{"op": "construct", "ver": ver, "s": esc(walks.spelled(ver, x["minor"], x["fields"])), "json": False} for x in st]
        items += [{"op": "construct", "ver": ver, "s": esc(corpus.random_vector(rnd, ver)[3]), "json": False} for _ in range(2000 if tier == "quick" else 50000)]
        items += [{"op": "construct", "ver": ver, "s": esc(s), "json": False} for v_, s in corpus.coverage_vectors() if v_ == ver]
        if ver == "4":
            items += [{"op": "construct", "ver": "4", "s": esc(x[3]), "json": False} for x in corpus.lookup_cover_v4(rnd)]
        sev = record_events(items, work, name="spell")
        for e in sev:
            for k in ("re_clean", "re_rh", "asm"):
                e["out"].pop(k, None)
        judge(c, prop, sev, work, "spelling-sample", module="TraceOracle", cfg="TraceOracle.cfg", extra_states=0,
              keyfn=lambda e, what: "%s|%s" % (prop, e["s"]))
        c.evaluations += len(sev)
        c.extra["spelling_sample"] = len(sev)
        # 4. beyond the property: the intermediate quantities the library exposes (effective values and macro vector of v4, impact /
        #    exploitability sub-scores of v3, impact equations of v2, value descriptions) against Internals.tla; disagreements are
        #    notes (the property is about the scores), but they show *where* a score goes wrong
        iitems = [dict(it, op="internals") for it in items[::(3 if tier == "quick" else max(1, len(items) // 50000))]]
        iev = record_events(iitems, work, name="internals")
        ip = os.path.join(work, "internals.json")
        json.dump(iev, open(ip, "w"), separators=(",", ":"))
        r = tlc_or_die("TraceInternals", cfg="TraceInternals.cfg", env={"TRACE_FILE": ip}, timeout=7200)
        c.add_tlc("TraceInternals: %d vectors, intermediate quantities against Internals.tla (beyond the property)" % len(iev), r)
        if r.distinct != 2 * len(iev):
            raise MachineryError("TraceInternals judged %d of %d events" % (r.distinct // 2, len(iev)))
        ifails = [l for l in r.lines if l.startswith("FAIL ")]
        c.extra["beyond_property_internals_events"] = len(iev)
        c.extra["beyond_property_internals_mismatches"] = len(ifails)
        for l in ifails[:3]:
            print("NOTE (beyond %s, not a violation): intermediate quantity differs from Internals.tla: %s on %s" % (prop, l, iev[int(l.split()[1]) - 1]["s"][:160]))
        os.remove(ip)
        c.traces += rows_total
        c.nontrivial = total + len(set(e["s"] for e in sev))
        c.exhaustive = (tier == "thorough")
        c.rule = ("score tables in canonical spelling over product sets of metric values (see harness/tables.py, "
                  "DESIGN.md 5); every entry is one constructor call on the working tree, judged by "
                  "TraceScores (Mode=oracle) against Score%s.tla; all entries are distinct vectors" % ver)
        c.samples = [{"table": {"ver": h["ver"], "minor": h["minor"], "outer": [d["name"] for d in h["outer"]],
                                "inner": [d["name"] for d in h["inner"]], "rows": len(tables.rows_of(1, h)),
                                "entries_per_row": tables.size_inner(h)}} for h in tabs]
        if ver == "4":
            c.extra["lookup_rows_exercised"] = len(macros)
            if len(macros) != 270:
                raise MachineryError("coverage gate: only %d of 270 macrovectors exercised" % len(macros))
        c.assumptions = ["TLC; the transcription of the standards in spec/Tables*.tla and Score*.tla (validated "
                         "against %d pinned official vectors in this run)" % n,
                         "canonical spelling only; other spellings are covered by the spelling sample of this check and by C05/C06"]
        return c.finish()
    finally:
        rm(work)
