# -*- coding: utf-8 -*-
"""C10 (official schema) and C11 (faithfulness; sort/minimal) over recorded as_json() output."""
import os, json, random, re, copy
from common import Check, tlc_or_die, scratch_dir, rm, MachineryError, esc, unesc, VERIF
import corpus
from props.strings import record_events, judge, valid_corpus

SCHEMAS = os.path.join(VERIF, "data", "official", "schemas")


def lib_validators():
    import jsonschema
    out = {}
    for sv in ("2.0", "3.0", "3.1", "4.0"):
        sch = json.load(open(os.path.join(SCHEMAS, "cvss-v%s.json" % sv)))

        def strip(x):   # the library decides multipleOf with binary floats (7.3/0.1 is not integral); checked separately
            if isinstance(x, dict):
                return dict((k, strip(v)) for k, v in x.items() if k != "multipleOf")
            if isinstance(x, list):
                return [strip(v) for v in x]
            return x
        sch = strip(sch)
        cls = jsonschema.validators.validator_for(sch)
        out[sv] = cls(sch)
    return out


def doc_to_py(doc):
    d = {}
    for k, typ, txt in doc:
        k = unesc(k)
        if typ == "str":
            d[k] = unesc(txt)
        elif typ == "num":
            d[k] = float(txt)
        elif typ == "int":
            d[k] = int(txt)
        elif typ == "bool":
            d[k] = (txt == "true")
        elif typ == "null":
            d[k] = None
        else:
            d[k] = json.loads(unesc(txt))
    return d


def lib_ok(validators, sv, doc):
    d = doc_to_py(doc)
    # JSON Schema patterns are ECMA-262 regular expressions, where '$' matches only at the very end; Python's re (used by the
    # library) also lets it match before a trailing line feed - decided here in the ECMA way, as JsonSchema.tla does
    if isinstance(d.get("vectorString"), str) and d["vectorString"].endswith("\n"):
        return False
    if not validators[sv].is_valid(d):
        return False
    if sv == "4.0":     # multipleOf 0.1, decided in decimal
        for k in ("baseScore", "threatScore", "environmentalScore"):
            if k in d and isinstance(d[k], float) and not re.match(r"^\d+\.\d$", repr(d[k])):
                return False
    return True


def mutate_doc(rnd, doc):
    doc = [list(f) for f in doc]
    k = rnd.randrange(7)
    if k == 0 and doc:
        del doc[rnd.randrange(len(doc))]
    elif k == 1:
        f = rnd.choice(doc)
        if f[1] == "str":
            f[2] = rnd.choice(["HIGH", "LOW", "NONE", "NOT_DEFINED", "ADJACENT", "ADJACENT_NETWORK", "Low", "CRITICAL", "4", "4.0", "3.0", "3.1", "2.0", "POC", "X", f[2].lower()])
    elif k == 2:
        f = rnd.choice(doc)
        if f[1] == "num":
            f[1], f[2] = "str", f[2]
    elif k == 3:
        f = rnd.choice(doc)
        if f[1] == "num":
            f[2] = rnd.choice(["10.1", "11.0", "0.0", "3.9", "4.0", "6.9", "7.0", "8.9", "9.0", "10.0", "0.1", "7.35", "100.0"])
    elif k == 4:
        for f in doc:
            if f[0].endswith("Severity"):
                f[2] = rnd.choice(["NONE", "LOW", "MEDIUM", "HIGH", "CRITICAL", "Medium"])
    elif k == 5:
        for f in doc:
            if f[0] == "vectorString":
                f[2] = esc(corpus.mutate(rnd, unesc(f[2]), "3"))
    else:
        doc.append(["extraKey", "str", "whatever"])
    return doc


def run(prop, tier, seed):
    c = Check(prop, tier, seed)
    rnd = random.Random(seed * 1000003 + int(prop[1:]))
    work = scratch_dir(prop)
    big = tier == "thorough"
    try:
        vs = valid_corpus(rnd, 700 if not big else 30000)
        strings = [(v[0], v[3]) for v in vs]
        # vectors whose optional scores are 0.0 and groups defined only by ND-equivalent values
        strings += [("2", "AV:N/AC:L/Au:N/C:C/I:C/A:C/TD:N"), ("2", "AV:L/AC:H/Au:M/C:N/I:N/A:N/E:U"), ("2", "AV:L/AC:H/Au:M/C:N/I:N/A:N/E:U/RL:OF/RC:UC/CDP:N/TD:H"),
                    ("2", "AV:N/AC:L/Au:N/C:N/I:N/A:N/CR:H"), ("2", "AV:N/AC:L/Au:N/C:P/I:P/A:P/E:H/RL:U/RC:C"), ("2", "AV:N/AC:L/Au:N/C:P/I:P/A:P/CDP:N/TD:H/CR:M"),
                    ("3", "CVSS:3.1/AV:N/AC:L/PR:N/UI:N/S:U/C:N/I:N/A:N/E:U"), ("3", "CVSS:3.0/AV:N/AC:L/PR:N/UI:N/S:U/C:N/I:N/A:N/MC:N"),
                    ("3", "CVSS:3.1/AV:N/AC:L/PR:N/UI:N/S:U/C:H/I:H/A:H/MC:N/MI:N/MA:N"), ("3", "CVSS:3.1/AV:N/AC:L/PR:N/UI:N/S:U/C:H/I:H/A:H/E:H/RL:U/RC:C/CR:M"),
                    ("4", "CVSS:4.0/AV:N/AC:L/AT:N/PR:N/UI:N/VC:N/VI:N/VA:N/SC:N/SI:N/SA:N/E:U/CR:L")]
        # one vector per distinct score value the library produces on the score tables (per version and slot)
        import tables
        reps, nrec = tables.score_representatives(tables.v2_tables("quick", seed) + tables.v3_tables("quick", seed, rnd.choice([0, 1]))[:3]
                                                  + tables.v4_tables("quick", seed)[2:3], work, seed)
        strings += reps
        c.extra["score_value_representatives"] = len(reps)
        # every base-only vector of v2 and v3 (finite: 729 + 2 x 2 592) and a seeded 3 000 of v4
        import itertools
        for ver in "234":
            combos = list(itertools.product(*[corpus.VALS[ver][m] for m in corpus.MAND[ver]]))
            if ver == "4":
                combos = rnd.sample(combos, 3000 if not big else 30000)
            for combo in combos:
                for minor in ([0, 1] if ver == "3" else [-1]):
                    strings.append((ver, corpus.spell(ver, minor, dict(zip(corpus.MAND[ver], combo)))))
        for ver in "2":      # every v2 base vector with zero impact x an optional metric: 0.0 scores in optional groups
            for _ in range(60 if not big else 600):
                g = corpus.random_assignment(rnd, ver, p_opt=0.5)
                g.update({"C": "N", "I": "N", "A": "N"})
                strings.append((ver, corpus.spell(ver, -1, g)))
        # every third vector is followed by a twin in another spelling (other field order, optional metrics spelled out as Not
        # Defined): both are built in the same interpreter process, so output that leaks from one object to an equal one shows
        uniq = list(dict.fromkeys(strings))
        withtwins = []
        for k, (ver, s) in enumerate(uniq):
            withtwins.append((ver, s))
            if k % 3 == 0:
                pre = corpus.prefix(ver, 0)[:0] if ver == "2" else s.split("/", 1)[0] + "/"
                fields = (s if ver == "2" else s.split("/", 1)[1]).split("/")
                rnd.shuffle(fields)
                present = set(f.split(":")[0] for f in fields)
                for m in corpus.ORDER[ver]:
                    if m not in present and m not in corpus.MAND[ver] and rnd.random() < 0.3:
                        fields.insert(rnd.randrange(len(fields) + 1), m + ":" + corpus.ND[ver])
                withtwins.append((ver, pre + "/".join(fields)))
        items = [{"op": "construct", "ver": ver, "s": esc(s), "json": True} for ver, s in withtwins]
        nvalid = len(items)
        # C10/C11 speak about every vector the library *accepts*: near misses are offered too, and whatever is accepted is judged
        items += [{"op": "construct", "ver": ver, "s": esc(s), "json": True} for s in corpus.near_misses(rnd, 600 if not big else 20000) for ver in "234"]
        ev = record_events(items, work)
        nrej = sum(1 for e in ev[:nvalid] if e["out"]["cls"] == "exc")
        c.extra["valid_vectors_rejected_by_the_library"] = nrej          # C04's business; this property speaks about accepted vectors
        if nrej > nvalid // 2:
            raise MachineryError("the library rejects most of the generated valid vectors, e.g. %s" % [e["s"] for e in ev[:nvalid] if e["out"]["cls"] == "exc"][0])
        for n_, e in enumerate(ev):
            for k in ("re_clean", "re_rh", "asm"):
                e["out"].pop(k, None)
        c.extra["near_misses_accepted_by_the_library"] = sum(1 for e in ev[nvalid:] if e["out"]["cls"] == "ok")
        ev = [e for e in ev if e["out"]["cls"] in ("ok", "accessor-raised")]
        c.evaluations = 4 * len(ev)
        if prop == "C10":
            # design level: the transcription of the schemas agrees with the jsonschema library on the pinned files
            val = lib_validators()
            xs = []
            for e in [x for x in ev if x["out"]["cls"] == "ok"][:: (3 if not big else 1)]:
                sv = {"2": "2.0", "4": "4.0"}.get(e["ver"], "3.%d" % e["out"]["minor"])
                for variant in ("uf", "sm"):
                    doc = e["out"]["json"][variant]
                    xs.append({"sv": sv, "doc": doc, "lib": lib_ok(val, sv, doc)})
                    for _ in range(2):
                        m = mutate_doc(rnd, doc)
                        if all(f[1] != "other" for f in m) and m:
                            xs.append({"sv": sv, "doc": m, "lib": lib_ok(val, sv, m)})
            n = judge(c, "XS", xs, work, "schema-transcription-vs-jsonschema", module="TraceJson", cfg="TraceJson_XS.cfg", extra_states=0)
            c.traces -= len(xs)
            c.extra["schema_transcription_crosscheck_docs"] = len(xs)
            c.extra["schema_transcription_crosscheck_invalid_docs"] = sum(1 for x in xs if not x["lib"])
            if c.violations:
                bad = c.violations[0]
                raise MachineryError("JsonSchema.tla disagrees with the jsonschema library on the pinned schema: %s" % (bad[1][:600]))

        def keyfn(e, what):
            return what          # split below
        # design facts tying the schema's value names to the library's published wording (exceptions listed exactly)
        c.add_tlc("MC_Json: the reference documents of JsonDoc.tla (every metric x value on a sparse and a dense background, 4 variants) satisfy the schema predicates and the C11 rules", tlc_or_die("MC_Json", workers=4, timeout=1800))
        c.add_tlc("MC_Internals: JSON value names = upper-cased descriptions up to the listed exceptions; display tables cover the standards' tables; lookup domain", tlc_or_die("MC_Internals", workers=1, timeout=600))
        from props.strings import CHUNK
        for e in ev:
            if e["out"].get("cls") == "accessor-raised":
                c.violation("%s|accessor-raised|%s" % (prop, e["out"]["e"]["exc"]), "an accessor raised %s (%s) for the accepted vector %s(%s)" % (e["out"]["e"]["exc"], e["out"]["e"].get("msg", "")[:120], "CVSS" + e["ver"], e["s"][:200]),
                            {"ver": e["ver"], "s": e["s"], "clause": "accessor-raised"})
        chunk = max(1, CHUNK // 4)             # an event carries four documents
        for k0 in range(0, len(ev), chunk):
            part = ev[k0:k0 + chunk]
            p = os.path.join(work, "json.trace.json")
            json.dump(part, open(p, "w"), separators=(",", ":"))
            r = tlc_or_die("TraceJson", cfg="TraceJson_%s.cfg" % prop, env={"TRACE_FILE": p}, timeout=7200)
            c.add_tlc("TraceJson %s (events %d..%d)" % (prop, k0 + 1, k0 + len(part)), r)
            if r.distinct != 2 * len(part):
                raise MachineryError("TLC judged %d states for %d events" % (r.distinct, len(part)))
            for l in r.lines:
                if not l.startswith("FAIL "):
                    continue
                m = re.match(r"FAIL (\d+) (.*)", l)
                e = part[int(m.group(1)) - 1]
                what = m.group(2).replace("\\", "")
                if prop == "C10":
                    sv = what.split(" ")[1]
                    for clause in re.findall(r'"([^"]+)"', what):
                        c.violation("C10|%s|%s" % (sv, clause), "as_json() of %s(%s) violates %s of cvss-v%s.json" % ("CVSS" + e["ver"], e["s"], clause, sv),
                                    {"ver": e["ver"], "s": e["s"], "clause": clause, "json": e["out"]["json"]["uf"]})
                else:
                    clause = what.split(":")[0]
                    c.violation("C11|v%s|%s" % (e["ver"], clause), "%s for %s(%s)" % (what, "CVSS" + e["ver"], e["s"]),
                                {"ver": e["ver"], "s": e["s"], "clause": what, "json": e["out"]["json"]})
            os.remove(p)
        c.traces += len(ev)
        c.nontrivial = len(ev)
        c.rule = ("valid vectors (every metric x value x group shape, random spellings, zero-score and ND-only groups); per vector the four "
                  "(sort, minimal) documents after json.dumps/json.loads; judged by TLC against " +
                  ("JsonSchema.tla (transcription of the four official schemas, cross-checked in this run against the jsonschema library on the pinned files incl. mutated documents)"
                   if prop == "C10" else "the faithfulness / sort / minimal constraints of TraceJson.tla with independent name tables (Tables*.tla)"))
        c.samples = [{"s": e["s"], "json_sorted_minimal": e["out"]["json"]["sm"][:6]} for e in [x for x in ev if x["out"]["cls"] == "ok"][::max(1, len(ev) // 4)]][:4]
        c.assumptions = ["TLC; JSON values travel as [key, type, text]; numbers by repr"]
        return c.finish()
    finally:
        rm(work)
