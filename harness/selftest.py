# -*- coding: utf-8 -*-
"""./check selftest [--seeds] : demonstrations that the machinery is bound to the code and not vacuous.

 (a) corruption: a recorded trace is corrupted in one field and TLC must reject exactly that event/row/session
 (b) model: every bug switch of System.tla violates an invariant (the C18/C19 properties can fail)
 (c) --seeds: every independently written breaking change under /verif/seeded/ is applied to a scratch copy of the
     repository's package (outside /repo and /verif), and the check(s) recorded as catching it must print VIOLATION"""
import os, sys, json, subprocess, shutil, tempfile, random, glob
from common import tlc_or_die, run_tlc, scratch_dir, rm, REPO, VERIF, esc
import tables, corpus
from props.strings import record_events
from props import interactive16


def fails(r):
    return [l for l in r.lines if l.startswith("FAIL ") or l.startswith("REJ ")]


def main():
    ok = True
    work = scratch_dir("selftest")
    rnd = random.Random(1)

    def expect(name, cond, info=""):
        nonlocal ok
        print("%-70s %s %s" % (name, "ok" if cond else "FAILED", info))
        ok = ok and cond
    try:
        # (a1) score table: one observed score off by one tenth
        tabs = tables.v4_tables("quick", 0)[2:3]
        files, total = tables.record(tabs, work, 0, rows=[[1, [1, 1, 1, 1, 1]], [1, [2, 2, 2, 1, 1]]], name="st")
        path = files[0][0]
        r = tlc_or_die("TraceScores", cfg="TraceScores_oracle.cfg", env={"TRACE_FILE": path})
        expect("TraceScores accepts an unmodified recording", not fails(r))
        d = json.load(open(path))
        d["rows"][1]["obs"][100] += 1
        json.dump(d, open(path, "w"))
        r = tlc_or_die("TraceScores", cfg="TraceScores_oracle.cfg", env={"TRACE_FILE": path})
        expect("TraceScores rejects the row with one corrupted score", len(fails(r)) == 1 and fails(r)[0].startswith("FAIL 2 "))
        # (a2) constructor events: outcome flipped
        items = [{"op": "construct", "ver": "3", "s": esc(s), "json": False} for s in
                 ["CVSS:3.1/AV:N/AC:L/PR:N/UI:N/S:U/C:H/I:H/A:H", "CVSS:3.1/AV:N/AC:L/PR:N/UI:N/S:U/C:H/I:H", "CVSS:3.1/AV:N/AC:L/PR:N/UI:N/S:U/C:H/I:H/A:H/"]]
        ev = record_events(items, work)
        p = os.path.join(work, "ev.json")
        json.dump(ev, open(p, "w"))
        r = tlc_or_die("TraceEvents", cfg="TraceEvents_C04.cfg", env={"TRACE_FILE": p})
        expect("TraceEvents(C04) accepts unmodified events", not fails(r))
        ev[1]["out"]["e"]["exc"] = "CVSS3MalformedError"
        json.dump(ev, open(p, "w"))
        r = tlc_or_die("TraceEvents", cfg="TraceEvents_C04.cfg", env={"TRACE_FILE": p})
        expect("TraceEvents(C04) rejects a corrupted error class", len(fails(r)) == 1 and "wrong-error-class" in fails(r)[0])
        # (a3) builder session: one accepted answer replaced in the log
        sess = record_events([{"bver": "3.1", "all": False, "no_colors": True, "script": ["N", "L", "N", "N", "U", "H", "H", "H"]}], work, script="interactive.py")
        p = os.path.join(work, "s.json")
        json.dump(sess, open(p, "w"))
        r = tlc_or_die("TraceInteractive", cfg="TraceInteractive_FALSE.cfg", env={"TRACE_FILE": p})
        expect("TraceInteractive accepts an unmodified session", any(l.startswith("ACC 1") for l in r.lines))
        sess[0]["events"][2]["answer"] = "H"
        json.dump(sess, open(p, "w"))
        r = tlc_or_die("TraceInteractive", cfg="TraceInteractive_FALSE.cfg", env={"TRACE_FILE": p})
        expect("TraceInteractive rejects a session with one corrupted answer", not any(l.startswith("ACC 1") for l in r.lines) and any(l.startswith("REJ 1") for l in r.lines))
        # (a4) removing one event (a missing hook) is rejected as well
        del sess[0]["events"][3]
        json.dump(sess, open(p, "w"))
        r = tlc_or_die("TraceInteractive", cfg="TraceInteractive_FALSE.cfg", env={"TRACE_FILE": p})
        expect("TraceInteractive rejects a session with one event removed", not any(l.startswith("ACC 1") for l in r.lines))
        # (a5) Returns.tla: a call that does not come back is reported with its input (processor-time budget / blocked budget), a job whose
        # calls all return is not; the leads-to holds on the model and fails under the Diverge switch
        import common
        saved = common.RETURN_CPU_S, common.RETURN_IDLE_S
        try:
            common.RETURN_CPU_S, common.RETURN_IDLE_S = 6.0, 8.0
            for kind in ("spin", "block"):
                job = {"out": os.path.join(work, "hang.out"), "items": [{"n": 1}, {"n": 2, kind: True, "input": "the one that hangs"}, {"n": 3}]}
                try:
                    common.run_driver("hang.py", [job], work, name="hang")
                    got = None
                except common.DoesNotReturn as e:
                    got = e
                expect("a call that never returns (%s) is reported with its input" % kind, got is not None and isinstance(got.item, dict) and got.item.get("n") == 2, getattr(got, "why", ""))
            common.run_driver("hang.py", [{"out": os.path.join(work, "hang.out"), "items": [{"n": k} for k in range(50)]}], work, name="hang")
            expect("a job whose calls all return raises nothing", True)
        finally:
            common.RETURN_CPU_S, common.RETURN_IDLE_S = saved
        r = run_tlc("MC_Returns", cfg="MC_Returns_ok.cfg", workers=4)
        expect("MC_Returns: every call returns (leads-to holds)", r.ok)
        r = run_tlc("MC_Returns", cfg="MC_Returns_bug.cfg", workers=4)
        expect("MC_Returns with the Diverge switch: the leads-to is violated", (not r.ok) and "violated" in r.raw)
        # (b) model bug switches
        for v in ("bug1", "bug2", "bug3", "bug4", "bug5", "bug6", "bug7", "bug8"):
            r = run_tlc("MC_System", cfg="MC_System_%s.cfg" % v, workers=4)
            expect("MC_System %s: an invariant is violated" % v, (not r.ok) and "violated" in r.raw)
        r = run_tlc("MC_System", cfg="MC_System_ok.cfg", workers=4)
        expect("MC_System without bug switches: all properties hold", r.ok)
        # (c) seeded changes
        if "--seeds" in sys.argv:
            # every filed seeded change is re-applied to a scratch copy of the working tree and must be caught again by the checks that
            # caught it when it was filed; VERIF_SEEDS (a regular expression on the seed's name) selects a subset; four at a time
            import re as _re
            from concurrent.futures import ThreadPoolExecutor
            want = _re.compile(os.environ.get("VERIF_SEEDS", "."))

            def one(d):
                out = []
                meta = json.load(open(os.path.join(d, "meta.json")))
                tmp = tempfile.mkdtemp(prefix="selftest-seed-")
                try:
                    shutil.copytree(os.path.join(REPO, "cvss"), os.path.join(tmp, "cvss"))
                    p = subprocess.run(["patch", "-p1", "-s", "-i", os.path.join(d, "patch.diff")], cwd=tmp, stdout=subprocess.PIPE, stderr=subprocess.STDOUT)
                    if p.returncode != 0:
                        return [("seed %s applies" % os.path.basename(d), False, p.stdout.decode()[-200:])]
                    for prop, res in sorted(meta["checks_run"].items()):
                        if not res.get("caught"):
                            continue
                        r = subprocess.run([os.path.join(VERIF, "check"), prop, "--tier", "quick"], env=dict(os.environ, CVSS_REPO=tmp), stdout=subprocess.PIPE, stderr=subprocess.STDOUT)
                        out.append(("seed %s is caught by %s" % (os.path.basename(d), prop), r.returncode == 1 and b"VIOLATION property=" + prop.encode() in r.stdout, ""))
                finally:
                    shutil.rmtree(tmp, ignore_errors=True)
                return out
            dirs = [d for d in sorted(glob.glob(os.path.join(VERIF, "seeded", "*"))) if want.search(os.path.basename(d))]
            with ThreadPoolExecutor(max_workers=int(os.environ.get("VERIF_SEEDS_PARALLEL", "4"))) as ex:
                for res in ex.map(one, dirs):
                    for what, good, detail in res:
                        expect(what, good, detail) if detail else expect(what, good)
    finally:
        rm(work)
    print("selftest: %s" % ("ok" if ok else "FAILED"))
    return 0 if ok else 1
