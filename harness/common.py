# -*- coding: utf-8 -*-
"""Shared machinery of the cvss verification framework (run with python3-vt or any python >= 3.8).

* run_tlc():   start TLC on a spec/cfg in /verif/spec with a scratch metadir, parse its output
* run_driver(): run a driver script under the interpreter of the repository (fresh processes,
               -B, PYTHONPATH = the working tree), in parallel shards
* Result / evidence / violation reporting / known findings
Exit codes of a check: 0 ok, 1 violation, 2 machinery failure (never 1 for tooling trouble).
"""
from __future__ import print_function
import os, sys, json, time, subprocess, shutil, re, hashlib, random, tempfile

VERIF = os.path.dirname(os.path.dirname(os.path.abspath(__file__)))
SPEC = os.path.join(VERIF, "spec")
HARNESS = os.path.join(VERIF, "harness")
DRIVERS = os.path.join(HARNESS, "drivers")
REPO = os.environ.get("CVSS_REPO", "/repo")
REPO_PY = os.environ.get("CVSS_PY", "/venv/bin/python")
JAR = "/opt/veriftools/tla/tla2tools.jar:/opt/veriftools/tla/CommunityModules-deps.jar"
NCPU = int(os.environ.get("VERIF_CPUS", "16"))
GUARD = "REDHATPRODUCTSECURITY_CVSS_VERIF"


class MachineryError(Exception):
    pass


class DoesNotReturn(Exception):
    """A call into the library did not return (Returns.tla: every call returns): the driver named the input in its heartbeat
    and then made no progress for RETURN_CPU_S seconds of processor time (or RETURN_IDLE_S seconds without using any)."""

    def __init__(self, script, item, why):
        Exception.__init__(self, "%s: %s" % (script, why))
        self.script, self.item, self.why = script, item, why
        self.list_key, self.job_rest = None, None


RETURN_CPU_S = float(os.environ.get("VERIF_RETURN_CPU_S", "300"))      # processor seconds on one input (ordinary inputs: milliseconds)
RETURN_IDLE_S = float(os.environ.get("VERIF_RETURN_IDLE_S", "600"))   # seconds on one input without using the processor (blocked)
_CLK = os.sysconf("SC_CLK_TCK")


def _group_cpu():
    """processor seconds used so far by the live processes of each process group (drivers start one group per job)"""
    acc = {}
    for d in os.listdir("/proc"):
        if not d.isdigit():
            continue
        try:
            with open("/proc/%s/stat" % d) as fh:
                st = fh.read()
        except (IOError, OSError):
            continue
        f = st[st.rindex(")") + 2:].split()
        try:
            pgrp, ut, stt, cut, cst = int(f[2]), int(f[11]), int(f[12]), int(f[13]), int(f[14])
        except (ValueError, IndexError):
            continue
        acc[pgrp] = acc.get(pgrp, 0.0) + (ut + stt + cut + cst) / float(_CLK)
    return acc


def scratch_dir(tag):
    base = os.path.join(VERIF, ".work")
    os.makedirs(base, exist_ok=True)
    return tempfile.mkdtemp(prefix=tag + "-", dir=base)


def rm(path):
    shutil.rmtree(path, ignore_errors=True)


def esc(s):
    """Injective ASCII escape understood by Chars.tla (see its header)."""
    out = []
    for ch in s:
        o = ord(ch)
        if 32 <= o < 127 and ch not in "{}\"\\":
            out.append(ch)
        else:
            out.append("{%d}" % o)
    return "".join(out)


def unesc(s):
    return re.sub(r"\{(\d+)\}", lambda m: chr(int(m.group(1))), s)


def repo_env(extra=None):
    env = dict(os.environ)
    env["PYTHONPATH"] = REPO + os.pathsep + DRIVERS
    env["PYTHONDONTWRITEBYTECODE"] = "1"
    env.setdefault("PYTHONHASHSEED", "0")
    env[GUARD] = "1"
    env["CVSS_REPO"] = REPO
    if extra:
        env.update(extra)
    return env


PYFLAGS = [["-S"], ["-bb"], ["-W", "error"], ["-X", "dev"], ["-O"], ["-OO"], ["-u"], ["-X", "utf8"], ["-s"], ["-W", "error", "-bb", "-X", "dev"], ["-q"], ["-X", "importtime"][:0] + ["-R"]]


DRIVER_STATS = {}


def run_driver(script, jobs, out_dir, py=None, env=None, timeout=3600, name="drv"):
    """Run DRIVERS/script once per job (a JSON-serialisable dict passed as argv[1]) in parallel.
    Each job writes its own output file(s); returns list of (job, returncode, stderr_tail)."""
    py = py or REPO_PY
    procs, results = [], []
    pending = list(enumerate(jobs))
    running = []
    t0 = time.time()
    watch, last_watch, stats = {}, 0.0, DRIVER_STATS
    while pending or running:
        while pending and len(running) < NCPU:
            k, job = pending.pop(0)
            errf = open(os.path.join(out_dir, "%s.%d.err" % (name, k)), "w+")
            jobf = os.path.join(out_dir, "%s.%d.job" % (name, k))
            with open(jobf, "w") as jf:
                json.dump(job, jf)
            # interpreter options are ambient settings too: every fourth job of a batch runs under one of them (only the
            # repository's default interpreter; the drivers themselves are clean under all of them)
            flags = PYFLAGS[(k // 4) % len(PYFLAGS)] if (k % 4 == 2 and py == REPO_PY and not (env or {}).get("PYTHONOPTIMIZE")) else []
            hbf = os.path.join(out_dir, "%s.%d.hb" % (name, k))
            e_ = repo_env(env)
            e_["VERIF_HB"] = hbf
            p = subprocess.Popen([py, "-B"] + flags + [os.path.join(DRIVERS, script), jobf],
                                 env=e_, stdout=subprocess.DEVNULL, stderr=errf,
                                 cwd=out_dir, start_new_session=True)
            running.append((k, job, p, errf))
            watch[k] = {"tok": None, "cpu0": 0.0, "t0": time.time(), "hbf": hbf}
        time.sleep(0.02)
        still = []
        cpu = None
        if time.time() - last_watch > 2.0:
            last_watch = time.time()
            cpu = _group_cpu()
        for k, job, p, errf in running:
            rc = p.poll()
            if rc is None:
                if cpu is not None:
                    w = watch[k]
                    try:
                        with open(w["hbf"], "rb") as fh:
                            tok = fh.read(3200)
                    except (IOError, OSError):
                        tok = b""
                    used = cpu.get(p.pid, 0.0)
                    if tok != w["tok"]:
                        w["tok"], w["cpu0"], w["t0"] = tok, used, time.time()
                    else:
                        on_cpu, idle = used - w["cpu0"], time.time() - w["t0"]
                        stats["max_cpu_on_one_input_s"] = max(stats.get("max_cpu_on_one_input_s", 0.0), round(on_cpu, 1))
                        why = None
                        if on_cpu > RETURN_CPU_S:
                            why = "no progress after %.0f s of processor time on one input" % on_cpu
                        elif idle > RETURN_IDLE_S and on_cpu < 0.01 * idle:
                            why = "blocked for %.0f s on one input (%.1f s of processor time)" % (idle, on_cpu)
                        if why and tok.strip():
                            for q in running:
                                try:
                                    os.killpg(q[2].pid, 9)
                                except OSError:
                                    pass
                            try:
                                item = json.loads(tok.decode("ascii", "replace").strip() or "{}").get("item")
                            except ValueError:
                                item = tok.decode("ascii", "replace").strip()[:2000]
                            # the heartbeat counts the job's inputs: take the input itself from the job (the heartbeat is cut at 3 000 characters)
                            ex = DoesNotReturn(script, item, why)
                            m_ = re.match(r'\{"n": (\d+)', tok.decode("ascii", "replace"))
                            for lk in ("items", "rows", "cands"):
                                if m_ and isinstance(job.get(lk), list) and 1 <= int(m_.group(1)) <= len(job[lk]):
                                    ex.item = job[lk][int(m_.group(1)) - 1]
                                    ex.list_key = lk
                                    ex.job_rest = dict((k_, v_) for k_, v_ in job.items() if k_ != lk and len(json.dumps(v_)) < 200000)
                                    break
                            raise ex
                if time.time() - t0 > timeout:
                    try:
                        os.killpg(p.pid, 9)
                    except OSError:
                        p.kill()
                    raise MachineryError("driver %s timed out" % script)
                still.append((k, job, p, errf))
            else:
                errf.seek(0)
                tail = errf.read()[-2000:]
                errf.close()
                for suffix in ("err", "job", "hb"):
                    try:
                        os.remove(os.path.join(out_dir, "%s.%d.%s" % (name, k, suffix)))
                    except OSError:
                        pass
                results.append((k, job, rc, tail))
        running = still
    results.sort(key=lambda r: r[0])
    for k, job, rc, tail in results:
        if rc != 0:
            raise MachineryError("driver %s job %d failed rc=%d: %s" % (script, k, rc, tail))
    return results


class TlcResult(object):
    def __init__(self):
        self.ok = False
        self.generated = 0
        self.distinct = 0
        self.lines = []       # PrintT'd strings
        self.error = None
        self.wall = 0.0
        self.raw = ""
        self.coverage = {}


_PRINT_RE = re.compile(r'^"(.*)"$')


def run_tlc(module, cfg=None, env=None, workers=None, timeout=3600, simulate=None, extra=None,
            depth=None, keep_raw=False, seed=None, deadlock=False):
    """Run TLC on SPEC/module.tla. Returns TlcResult. PrintT("...") strings are collected."""
    workers = workers or NCPU
    meta = scratch_dir("tlc")
    cmd = ["java", "-Xss512m", "-XX:+UseParallelGC", "-Xmx%s" % os.environ.get("VERIF_TLC_HEAP", "16g"), "-Xmn2g", "-XX:ParallelGCThreads=4",
           "-cp", JAR, "tlc2.TLC", "-workers", str(workers), "-metadir", meta,
           "-noGenerateSpecTE", "-config", cfg or (module + ".cfg")]
    if not deadlock:
        cmd.append("-deadlock")
    if simulate:
        cmd += ["-simulate", simulate]
    if depth:
        cmd += ["-depth", str(depth)]
    if seed is not None:
        cmd += ["-seed", str(seed)]
    if extra:
        cmd += extra
    cmd.append(module + ".tla")
    e = dict(os.environ)
    if env:
        e.update({k: str(v) for k, v in env.items()})
    res = TlcResult()
    t0 = time.time()
    try:
        p = subprocess.run(cmd, cwd=SPEC, env=e, stdout=subprocess.PIPE, stderr=subprocess.STDOUT,
                           timeout=timeout)
        out = p.stdout.decode("utf-8", "replace")
        rc = p.returncode
    except subprocess.TimeoutExpired as ex:
        out = (ex.stdout or b"").decode("utf-8", "replace")
        rc = -9
        res.error = "timeout"
    finally:
        rm(meta)
    res.wall = time.time() - t0
    res.raw = out if keep_raw else out[-20000:]
    for line in out.splitlines():
        m = _PRINT_RE.match(line.strip())
        if m:
            res.lines.append(m.group(1))
    m = re.search(r"(\d+) states generated, (\d+) distinct states found", out)
    if m:
        res.generated, res.distinct = int(m.group(1)), int(m.group(2))
    if rc != 0 and res.error is None:
        # TLC exit codes: 0 ok; 10-13 violations; others errors
        m2 = re.search(r"Error: (.*)", out)
        res.error = "rc=%d %s" % (rc, m2.group(1) if m2 else out[-1500:])
    res.ok = (rc == 0)
    res.rc = rc
    return res


def tlc_or_die(*a, **k):
    r = run_tlc(*a, **k)
    if not r.ok:
        raise MachineryError("TLC failed on %s: %s\n%s" % (a[0], r.error, r.raw[-3000:]))
    return r


def parse_gen(line):
    """A PrintT("GEN " \\o ToJson(x)) line: TLA+ string literal content -> python object."""
    assert line.startswith("GEN ")
    body = line[4:]
    # the captured text is the inside of a TLA+ string literal: unescape \" and \\
    body = body.replace('\\"', '"').replace("\\\\", "\\")
    return json.loads(body)


# ---------------------------------------------------------------------------------------------
def load_known():
    p = os.path.join(VERIF, "known_findings.json")
    if not os.path.exists(p):
        return {"findings": [], "fixed": []}
    return json.load(open(p))


class Check(object):
    """Collects what one property check did; writes evidence; decides the exit code."""

    def __init__(self, prop, tier, seed, level="model_checking"):
        self.prop, self.tier, self.seed, self.level = prop, tier, seed, level
        self.t0 = time.time()
        self.states = 0
        self.transitions = 0
        self.traces = 0
        self.evaluations = 0
        self.nontrivial = 0
        self.samples = []
        self.rule = ""
        self.violations = []      # (key, what, replay_obj)
        self.known_hits = {}
        self.extra = {}
        self.assumptions = []
        self.exhaustive = False
        self.tlc_runs = []
        self.notes = []
        self.known = load_known()

    def add_tlc(self, name, r):
        self.states += r.distinct
        self.transitions += r.generated
        self.tlc_runs.append({"run": name, "distinct": r.distinct, "generated": r.generated,
                              "wall_s": round(r.wall, 1)})

    def violation(self, key, what, replay=None):
        """key: narrow identification used to match known findings."""
        for f in self.known.get("findings", []):
            if f["property"] == self.prop and re.match(f["key"] + r"\Z", key):
                self.known_hits.setdefault(f["key"], [f, 0])[1] += 1
                return False
        self.violations.append((key, what, replay))
        return True

    def finish(self):
        wall = time.time() - self.t0
        outdir = os.path.join(VERIF, "out", self.prop)
        os.makedirs(outdir, exist_ok=True)
        for key, (f, n) in sorted(self.known_hits.items()):
            print("KNOWN-FINDING: property=%s %s [%d occurrences this run; key=%s]" %
                  (self.prop, f["what"], n, f["key"]))
        import glob
        for old in glob.glob(os.path.join(outdir, self.tier + "-*.json")):     # replay files of earlier runs of this tier
            os.remove(old)
        # one VIOLATION line per distinct key (first occurrence is the replay file), with its count
        bykey = {}
        for key, what, replay in self.violations:
            bykey.setdefault(key, []).append((what, replay))
        for n, key in enumerate(sorted(bykey)):
            if n >= 12:
                print("  ... and %d more distinct violation keys" % (len(bykey) - n))
                break
            what, replay = bykey[key][0]
            path = os.path.join(outdir, "%s-%d.json" % (self.tier, n))
            with open(path, "w") as fh:
                json.dump({"property": self.prop, "key": key, "what": what, "replay": replay, "occurrences": len(bykey[key]),
                           "tier": self.tier, "seed": self.seed}, fh, indent=1, sort_keys=True)
            print("VIOLATION property=%s replay=%s" % (self.prop, path))
            print("  detail: [%d x] %s :: %s" % (len(bykey[key]), key, what[:300]))
        self.extra["violation_keys"] = dict((k, len(v)) for k, v in sorted(bykey.items())[:50])
        cov = {
            "states": max(self.states, 0),
            "transitions": max(self.transitions, 0),
            "traces_validated_against_impl": self.traces,
            "evaluations": self.evaluations,
            "distinct_nontrivial": self.nontrivial,
            "rule": self.rule,
            "samples": self.samples[:8] or ["(none)"],
            "exhaustive": bool(self.exhaustive),
            "tlc_runs": self.tlc_runs,
            "known_findings_hit": {k: v[1] for k, v in self.known_hits.items()},
        }
        cov.update(self.extra)
        ev = {"property_id": self.prop, "tier": self.tier, "seed": int(self.seed),
              "level": self.level, "coverage": cov, "assumptions": self.assumptions,
              "wall_s": round(wall, 2), "violations": len(self.violations)}
        # evidence describes /repo; runs against another tree (seeded changes, mutants: CVSS_REPO set) leave it alone
        evdir = os.path.join(VERIF, "evidence") if os.path.realpath(REPO) == "/repo" else os.path.join(VERIF, "out", "evidence-other-tree")
        os.makedirs(evdir, exist_ok=True)
        with open(os.path.join(evdir, self.prop + ".json"), "w") as fh:
            json.dump(ev, fh, indent=1, sort_keys=True)
        print("%s %s: %s  (states=%d transitions=%d traces=%d evaluations=%d, %.1fs)" % (
            self.prop, self.tier, "VIOLATED" if self.violations else "ok", self.states,
            self.transitions, self.traces, self.evaluations, wall))
        return 1 if self.violations else 0


def tree_hash():
    h = hashlib.sha256()
    root = os.path.join(REPO, "cvss")
    for dp, dn, fn in sorted(os.walk(root)):
        dn.sort()
        for f in sorted(fn):
            if f.endswith(".py"):
                p = os.path.join(dp, f)
                h.update(p.encode())
                h.update(open(p, "rb").read())
    return h.hexdigest()
